"""
C04 -- no task outlives its scope (structured concurrency containment).

Structural clauses decided (DESIGN.md section 5/C04):
  P  close-on-all-exits: every way out of ``Scope.__aexit__`` (each receiver, each kind of
     pending exception, each signal at each suspension of the graceful branch) passes
     ``_close_scope()``, which disables interrupts, then closes children, then volatile
     children; the graceful branch awaits the children first
  E  EXIT-PRED: ``_await_children`` ends only on a test of the *live* child list being
     empty, evaluated after the last suspension
  M  closing/awaiting loops iterate over copies (children remove themselves)
  R  registration: ``do`` schedules the new task and appends it to exactly one list;
     ``__child_finished__`` removes it from the same list; a closed scope refuses and
     closes the payload
  F  finish-once: every terminal path of the task wrapper reports to the parent exactly
     once; ``Task.__close__`` finalises started and not-yet-started tasks
  forced-close: after GeneratorExit nothing suspends, transitively (closing is synchronous)
  typestate: the not-started predicate is sound on this interpreter
"""
import ast

from ..engine import Analysis, is_call_to, is_suspension, short, where_fn, tested, \
    key_truth, event_callees, invoked
from ..model import AnalysisError
from ..paths import SIGNALS, GENEXIT
from ..types import Callee
from .. import rules
from . import _scope

PROP = 'C04'
SCOPE = _scope.SCOPE
TASK = _scope.TASK


CLOSE_ORDER = ('_disable_interrupts', '_close_children', '_close_volatile')


def is_call_to_any(event, name) -> bool:
    if event.kind == 'leave':
        callee = event.data.get('callee')
        return callee is not None and callee.fn.name == name
    return is_call_to(event, name)


def _closes(path, what: str) -> bool:
    """the object ``what`` is closed if it can be closed at all: through a helper that
    does that for its argument, or by looking up ``.close`` and calling it unless the
    lookup fails"""
    for index, event in enumerate(path.events):
        node = event.node
        if event.kind in ('call', 'enter') and isinstance(node, ast.Call) and node.args and \
                rules.value_text(path, index, node.args[0]) == what:
            for callee in event_callees(event):
                if callee.fn.name.endswith('close') and len(
                        callee.fn.node.args.args) == 1:
                    return True
        if event.kind == 'getattr' and isinstance(node, ast.Attribute) and \
                node.attr == 'close' and rules.value_text(path, index, node.value) == what:
            rest = path.events[index + 1:]
            if rest and rest[0].kind == 'handler' and 'AttributeError' in rest[0]['exc']:
                return True  # nothing to close
            if any(e.kind == 'call' and isinstance(e.node, ast.Call)
                   and rules.value_text(path, index + 1 + k, e.node.func) == '%s.close' % what
                   for k, e in enumerate(rest)):
                return True
    return False


def _close_steps(path):
    """[(index, step)] of the closing sequence in Scope.__aexit__ itself (inlined helpers
    count as the place they are called from; an override chaining to super() is one step)"""
    steps = []
    for index, event in enumerate(path.events):
        if event.kind not in ('call', 'enter') or event.depth != 0:
            continue
        for name in CLOSE_ORDER:
            if is_call_to(event, name):
                if not steps or steps[-1][1] != name:
                    steps.append((index, name))
                break
    return steps


def check_only_the_exit_closes(check, an: Analysis, rule: str, receivers):
    """children -- volatile ones too -- are closed by the closing sequence at the exit of
    the block only: no other method of a scope (registering or deregistering a child,
    cancelling the scope) closes a child on any path, its private helpers run in place"""
    for recv in receivers:
        info = an.cls(recv)
        label = recv.rsplit('.', 1)[-1]
        names = set()
        for entry in info.mro:
            other = an.p.classes.get(entry)
            if other is not None:
                names.update(other.methods)
        n_paths, bad = 0, None
        for name in sorted(names):
            private = name.startswith('_') and not name.startswith('__')
            if name in ('__aexit__', '__init__') or private:
                continue  # private helpers are judged where they run: in their callers
            method = an.p.find_method(recv, name)
            if method is None or method.is_property or method.kind not in (
                    'sync', 'coroutine'):
                continue
            for path in an.paths(Callee(method, recv)):
                n_paths += 1
                for index, event in enumerate(path.events):
                    if event.kind in ('call', 'enter', 'susp') and \
                            is_call_to(event, '__close__', _scope.TASK):
                        bad = bad or (name, path, index)
        check.instance(rule, 'only-the-exit-closes-children[%s]' % label,
                       bad is None and n_paths > 0, where_fn(an.method(recv, '__aexit__')),
                       'no method other than __aexit__ closes a child task%s (%d paths)' % (
                           '' if bad is None else ': %s does' % bad[0], n_paths),
                       path=rules.path_lines(bad[1], bad[2]) if bad else None,
                       analysed=n_paths)


def check_scope_state_private(check, an: Analysis, rule: str):
    """whether a scope can still be interrupted, and the signals it owns, are the scope's own
    business: only methods of the scope classes call `_disable_interrupts` or write
    `_interruptable` / `_cancel_self` (a caller that switches them "for a moment" revokes the
    one signal that aborts the block when a child fails)"""
    scope_classes = set(_scope.scope_receivers(an))
    n, bad = 0, None
    for fn in an.p.functions.values():
        if isinstance(fn.node, ast.Lambda):
            continue
        owner = an.p.enclosing_self_class(fn)
        inside = owner is not None and (owner.qn in scope_classes or any(
            entry in scope_classes for entry in owner.mro))
        for node in rules._walk_own(fn.node):
            hit = None
            if isinstance(node, ast.Call) and isinstance(node.func, ast.Attribute) and \
                    node.func.attr in ('_disable_interrupts', '_close_scope',
                                       '_close_children', '_close_volatile'):
                hit = node
            elif isinstance(node, ast.Attribute) and isinstance(node.ctx,
                                                                (ast.Store, ast.Del)) \
                    and node.attr in ('_interruptable', '_cancel_self', '_interrupt'):
                hit = node
            if hit is not None:
                n += 1
                if not inside:
                    bad = bad or (fn, hit)
    check.instance(rule, 'scope-state:own-methods-only', bad is None and n >= 4,
                   '%s:%d' % (bad[0].module.relpath, bad[1].lineno) if bad else
                   where_fn(an.method(SCOPE, '__aexit__')),
                   'the closing steps are called and the interrupt state is written by '
                   'methods of the scope classes only (%d sites%s)' % (
                       n, '' if bad is None else '; also by %s' % short(bad[0].qn)))


def check_close_on_every_exit(check, an: Analysis, rule: str, receivers):
    """every way out of Scope.__aexit__ runs the closing sequence exactly once"""
    for recv in receivers:
        aexit = an.callee(recv, '__aexit__')
        label = recv.rsplit('.', 1)[-1]
        for which in ('none', 'genexit', 'exc:ext:Exception',
                      'exc:' + _scope.CANCEL_SCOPE, 'exc:' + _scope.CANCEL_TASK):
            paths = an.paths(aexit, which)
            verdicts = {}
            for path in paths:
                steps = _close_steps(path)
                names = [n for _i, n in steps]
                closed = [i for i, _n in steps[:1]]
                out = path.kind if path.kind != 'raise' else 'raise ' + \
                    path.outcome[1].cls.rsplit('.', 1)[-1].replace('ext:', '')
                # interrupts off, then children, then volatile children: once each
                ok = names == list(CLOSE_ORDER)
                graceful = True
                signalled = any(e.kind == 'handler' and e.depth == 0 for e in path.events)
                if which == 'none' and path.normal and closed and not signalled:
                    # on the graceful way out the children were awaited first
                    awaited = [i for i, e in enumerate(path.events)
                               if e.kind in ('susp', 'leave')
                               and is_call_to_any(e, '_await_children')
                               and e.data.get('exit', e.data.get('outcome')) == 'normal']
                    graceful = bool(awaited) and awaited[0] < closed[0]
                verdicts.setdefault((out, ok and graceful), path)
            # an assertion that what is known on the path does not decide, placed in front
            # of (or inside) the closing sequence, is a way out that skips it: the children
            # of a scope whose exit trips over its own check live on
            n_asserts, early = 0, None
            for path in paths:
                steps = _close_steps(path)
                last = steps[-1][0] if len(steps) == len(CLOSE_ORDER) else len(path.events)
                for index, event in enumerate(path.events[:last]):
                    if event.kind == 'assert':
                        n_asserts += 1
                        if event.data.get('could_fail'):
                            early = early or (path, index)
            short_which = which.replace('exc:', '').rsplit('.', 1)[-1].replace('ext:', '')
            check.instance(rule, 'Scope.__aexit__[%s]{%s}:no-open-assertion-before-closing'
                           % (label, short_which), early is None, where_fn(aexit.fn),
                           'no assertion that could fail stands between the entry of '
                           '__aexit__ and the end of the closing sequence (%d assertions on '
                           'paths)' % n_asserts,
                           path=rules.path_lines(*early) if early else None,
                           nontrivial=n_asserts > 0, analysed=len(paths))
            for (out, ok), path in sorted(verdicts.items(), key=lambda kv: repr(kv[0])):
                check.instance(rule, 'Scope.__aexit__[%s]{%s}:%s' % (label, short_which, out),
                               ok, where_fn(aexit.fn),
                               'this way out closes the scope exactly once (interrupts off, children, '
                               'volatile children)%s' % (
                                   ' after awaiting the children' if which == 'none'
                                   and out in ('return', 'normal') else ''),
                               path=rules.path_lines(path), analysed=len(paths))


def check_copy_iteration(check, an: Analysis, rule: str):
    """
    the child lists are never walked *live* while children are closed or awaited (a child
    that ends removes itself from the list, so every second one would be skipped): a walk
    over the list itself -- not over a copy or a snapshot made from it -- neither closes
    nor suspends; and the closing loops do close
    """
    for name, attr in (('_close_children', 'self._children'),
                       ('_close_volatile', 'self._volatile_children'),
                       ('_await_children', 'self._children')):
        callee = an.callee(SCOPE, name)
        verdict, n_iter, bad, closes = True, 0, None, 0
        skipped = None
        passes = {}   # loop statement -> [(closes a child?, path, start)]
        for path in an.paths(callee):
            for it in rules.iterations(path):
                closing = any(
                    is_call_to(event, '__close__') or (
                        event.kind in ('call', 'enter')
                        and isinstance(event.node, ast.Call)
                        and isinstance(event.node.func, ast.Attribute)
                        and event.node.func.attr == '__close__')
                    for _i, event in it.events())
                passes.setdefault(id(it.node), []).append((closing, path, it.start))
                if '_children' not in it.source:
                    continue
                n_iter += 1
        if name != '_await_children':
            for found in passes.values():
                # a loop that closes children closes one on *every* pass: none is left
                # alone (a child that was spawned but has not run yet must be closed too)
                if any(c for c, _p, _s in found):
                    for closing, path, start in found:
                        if not closing and skipped is None:
                            skipped = (path, start)
                if it.source != attr:
                    continue  # a copy: .copy(), [:], list(...), tuple(...)
                for index, event in it.events():
                    if is_suspension(event) or is_call_to(event, '__close__') or (
                            event.kind in ('call', 'enter') and isinstance(event.node, ast.Call)
                            and isinstance(event.node.func, ast.Attribute)
                            and event.node.func.attr == '__close__'):
                        verdict = False
                        bad = bad or (path, index)
            for event in path.events:
                if event.kind in ('call', 'enter') and (is_call_to(event, '__close__') or (
                        isinstance(event.node, ast.Call)
                        and isinstance(event.node.func, ast.Attribute)
                        and event.node.func.attr == '__close__')):
                    closes += 1
        check.instance(rule, '%s:iterates-copy' % name, verdict and n_iter > 0,
                       where_fn(callee.fn), 'no child is closed or awaited inside a walk over '
                       'the live `%s` (children remove themselves): copies and snapshots '
                       'are walked instead (%d iterations on paths)' % (attr, n_iter),
                       path=rules.path_lines(*bad) if bad else None, analysed=n_iter)
        if name != '_await_children':
            check.instance(rule, '%s:closes-each' % name, closes > 0 and skipped is None,
                           where_fn(callee.fn), 'each child of the list is closed, whatever '
                           'state it is in: no pass of the loop leaves its child alone',
                           path=rules.path_lines(*skipped) if skipped else None)


def run(check, an: Analysis):
    check.rule('P', 'every exit of Scope.__aexit__ passes _close_scope(); _close_scope '
                    'disables interrupts, closes children, then volatile children')
    check.rule('E', '_await_children returns only after testing the live child list empty '
                    'after its last suspension')
    check.rule('M', 'loops that close/await children iterate over a copy')
    check.rule('R', 'do(): refused when closed (payload closed, ScopeClosed); otherwise task '
                    'scheduled and registered in exactly one list matching its volatility')
    check.rule('F', 'wrapper reports to the parent exactly once per end; Task.__close__ '
                    'finalises both started and unstarted tasks')
    check.rule('forced-close', 'after GeneratorExit no path reaches another suspension')
    check.rule('typestate', 'the not-started predicate is sound on this interpreter')
    an.cls(SCOPE)
    receivers = _scope.scope_receivers(an)

    # ---- P ------------------------------------------------------------------
    check_close_on_every_exit(check, an, 'P', receivers)
    _scope.check_disable_interrupts(check, an, 'P')
    check.floor('P', 30)
    # ---- E ------------------------------------------------------------------
    for recv in receivers:
        awaitc = an.callee(recv, '_await_children')
        label = recv.rsplit('.', 1)[-1]
        paths = an.paths(awaitc)
        n_normal = 0
        bad = None
        for path in paths:
            if not path.normal:
                continue
            n_normal += 1
            last = max([i for i, e in enumerate(path.events) if is_suspension(e)] or [-1])
            tail = path.events[last + 1:]
            ok = any(tested(e, ('truth', 'self._children'), False) for e in tail)
            if not ok and bad is None:
                bad = path
        check.instance('E', '_await_children[%s]:exit-pred' % label, n_normal > 0 and
                       bad is None, where_fn(awaitc.fn),
                       'all %d normal exits test `self._children` empty after the last '
                       'suspension' % n_normal,
                       path=rules.path_lines(bad) if bad else None, analysed=len(paths))
        # it waits for each child's completion
        waits = set()
        for path in paths:
            for event in path.events:
                if event.kind == 'susp' and event.depth == 0:
                    waits.update(c.recv for c in event_callees(event))
        check.instance('E', '_await_children[%s]:awaits-done' % label,
                       waits == {_scope.DONE}, where_fn(awaitc.fn),
                       'the only thing awaited is the completion of a child: %s'
                       % sorted(w or '?' for w in waits))
    _scope.check_await_children_progress(check, an, 'E')
    # ---- M ------------------------------------------------------------------
    check_only_the_exit_closes(check, an, 'M', receivers)
    check_scope_state_private(check, an, 'M')
    check_copy_iteration(check, an, 'M')
    check.floor('M', 5)
    # ---- R ------------------------------------------------------------------
    do = an.callee(SCOPE, 'do')
    dfn = do.fn
    for path in an.paths(do):
        created = [i for i, e in enumerate(path.events) if e.kind == 'call'
                   and isinstance(e.node, ast.Call) and rules.text_at(path, e, e.node.func) == 'Task']
        sched = [i for i, e in enumerate(path.events) if is_call_to(e, 'schedule')]
        appends = [(i, rules.value_text(path, i, e.node.func.value))
                   for i, e in enumerate(path.events)
                   if e.kind == 'call' and isinstance(e.node, ast.Call)
                   and isinstance(e.node.func, ast.Attribute)
                   and e.node.func.attr == 'append'
                   and '_children' in rules.value_text(path, i, e.node.func.value)]
        if path.kind == 'raise' and path.outcome[1].cls.endswith('ScopeClosed'):
            event = [e for e in path.events if e.kind == 'raise'][-1]
            closed = rules.tests_before(
                path, len(path.events), lambda e: tested(e, ('truth', 'self._interruptable'),
                                                          False),
                kill=lambda e: e.kind == 'store' and e['path'] == 'self._interruptable') \
                is not None
            tidy = _closes(path, 'payload')
            ok = closed and tidy and not created and not sched
            check.instance('R', 'do:refused', ok, event.where,
                           'a scope that has ended closes the payload and raises '
                           'ScopeClosed without creating a task',
                           path=rules.path_lines(path))
        elif path.kind == 'return':
            open_ = created and rules.fact_value(
                path.events[created[0]], ('truth', 'self._interruptable'))
            vol = [e for e in path.events if e.kind == 'test'
                   and e.get('key') == ('truth', 'volatile')]
            want = 'self._volatile_children' if (vol and key_truth(vol[-1])) \
                else 'self._children'
            sched_ok = len(sched) == 1 and _schedules_runner(path.events[sched[0]], dfn)
            listed = len(appends) == 1 and appends[0][1] == want and bool(vol)
            if len(appends) == 1 and not vol:
                # the list chosen by a table lookup on the same flag
                listed = rules.bool_indexed(appends[0][1]) == (
                    'volatile', 'self._children', 'self._volatile_children')
            ok = len(created) == 1 and bool(open_) and sched_ok and listed
            check.instance('R', 'do:registered/%s' % ('volatile' if want.endswith(
                'volatile_children') else 'regular'), ok, where_fn(dfn),
                'one Task created while open (%s), its runner scheduled once (%s), '
                'appended to %s (%s)' % (bool(open_), sched_ok, want, appends),
                path=rules.path_lines(path))
    finished = an.callee(SCOPE, '__child_finished__')
    for path in an.paths(finished):
        if not path.normal:
            continue
        removes = [rules.text_at(path, e, e.node.func.value) for e in path.events
                   if e.kind == 'call' and isinstance(e.node, ast.Call)
                   and isinstance(e.node.func, ast.Attribute)
                   and e.node.func.attr == 'remove' and e.get('exit') == 'normal']
        vol = [e for e in path.events if e.kind == 'test'
               and e.get('key') == ('truth', 'child.__volatile__')]
        want = 'self._volatile_children' if (vol and key_truth(vol[-1])) \
            else 'self._children'
        agree = removes == [want] and bool(vol)
        if len(removes) == 1 and not vol:
            agree = rules.bool_indexed(removes[0]) == (
                'child.__volatile__', 'self._children', 'self._volatile_children')
        check.instance('R', '__child_finished__:removes/%s' % (
            'volatile' if want.endswith('volatile_children') else 'regular'),
            agree, where_fn(finished.fn),
            'a finished child leaves exactly the list `do` put it in: %s' % removes,
            path=rules.path_lines(path))
    check.floor('R', 5)
    # ---- F ------------------------------------------------------------------
    wrapper = _scope.wrapper_callee(an)
    kinds = {}
    for path in an.paths(wrapper):
        if not path.normal:
            continue
        calls = [e for e in path.events if is_call_to(e, '__child_finished__')
                 and e.depth == 0]
        closed_payload = _closes(path, 'self.payload')
        prerun = any(tested(e, ('isnone', 'self._result'), False) for e in path.events[:3])
        key = ('pre-run-exit' if prerun else 'ran', len(calls) == 1 and closed_payload)
        kinds.setdefault(key, path)
    for (kind, ok), path in sorted(kinds.items(), key=lambda kv: repr(kv[0])):
        check.instance('F', 'wrapper:%s:reports-once' % kind, ok, where_fn(wrapper.fn),
                       'parent.__child_finished__ called exactly once and the payload '
                       'closed', path=rules.path_lines(path))
    check_task_close(check, an, 'F')
    check_payload_opaque(check, an, 'F')
    # nothing escapes the task wrapper: whatever ends the payload or the start delay, the
    # task reports to its scope and becomes done
    escaping = [path for path in an.paths(wrapper) if not path.normal]
    check.instance('F', 'wrapper:nothing-escapes', not escaping, where_fn(wrapper.fn),
                   'every path of the task wrapper ends normally (%d paths)'
                   % len(an.paths(wrapper)),
                   path=rules.path_lines(escaping[0]) if escaping else None)
    # dismissing one child (close, cancel) is no failure: the scope and the siblings go on
    from . import c06
    c06.check_failed_flag(check, an, 'F')
    # unsubscribing what was subscribed cannot fail (closing a scope starts with it)
    from ..report import SubCheck
    from . import c03
    c03._check_subscribe_protocol(SubCheck(check, 'F', 'Notification'), an)
    # ---- forced close, typestate -----------------------------------------------
    n = _scope.check_forced_close(check, an, only_modules=('usim._', 'usim.__'))
    check.instance('forced-close', 'sites-found', n >= 20, '', '%d functions can receive '
                   'GeneratorExit at a suspension point' % n, nontrivial=False)
    _scope.check_typestate(check, an)
    from . import _scope as _sc
    _sc.check_scope_core(check, an, skip=('close', 'copies', 'only-exit', 'task-close'))
    from . import _scope as _kernel
    _kernel.check_kernel_core(check, an)
    check.stats.update(an.stats())


def check_payload_opaque(check, an: Analysis, rule: str):
    """
    What a task wraps is *any* awaitable the user hands to `scope.do` -- a coroutine, a
    condition, a notification, another task: the package awaits it and closes it "if it can
    be closed", and reads no other attribute of it.  (An attribute only coroutines have,
    read where tasks are reported or closed, raises for every other payload -- in the
    middle of a closing loop that leaves the remaining children running.)
    """
    allowed = {'close'}   # read under `except AttributeError` by the close-if-possible helper
    n_reads, bad = 0, None
    for fn in an.p.functions.values():
        if not fn.module.name.startswith('usim.') or fn.module.name.startswith('usim.py'):
            continue
        params = {a.arg for a in fn.node.args.args + fn.node.args.kwonlyargs}
        for node in ast.walk(fn.node):
            if not isinstance(node, ast.Attribute):
                continue
            base = node.value
            is_payload = (isinstance(base, ast.Attribute) and base.attr == 'payload') or (
                isinstance(base, ast.Name) and base.id == 'payload' and 'payload' in params)
            if not is_payload:
                continue
            n_reads += 1
            if node.attr not in allowed:
                bad = bad or ('%s:%d' % (fn.module.relpath, node.lineno), node.attr)
    # ... nor by a helper the payload is handed to (`try_close(self.payload)`): there the
    # parameter that receives it is read for `close` only, by attribute or by getattr
    def _is_payload(node):
        return (isinstance(node, ast.Attribute) and node.attr == 'payload') or (
            isinstance(node, ast.Name) and node.id == 'payload')
    helpers = set()
    for fn in an.p.functions.values():
        if fn.module.name.startswith('usim.py'):
            continue
        for node in ast.walk(fn.node):
            if isinstance(node, ast.Call) and isinstance(node.func, ast.Name):
                for pos, arg in enumerate(node.args):
                    if not _is_payload(arg):
                        continue
                    for target in an.p.functions.values():
                        if target.name == node.func.id and target.cls is None and \
                                target.parent is None and \
                                target.module is fn.module and \
                                pos < len(target.node.args.args):
                            helpers.add((target, target.node.args.args[pos].arg))
    for target, param in sorted(helpers, key=lambda pair: pair[0].qn):
        for node in ast.walk(target.node):
            attr = None
            if isinstance(node, ast.Attribute) and isinstance(node.value, ast.Name) and \
                    node.value.id == param:
                attr = node.attr
            elif isinstance(node, ast.Call) and isinstance(node.func, ast.Name) and \
                    node.func.id in ('getattr', 'hasattr') and len(node.args) >= 2 and \
                    isinstance(node.args[0], ast.Name) and node.args[0].id == param:
                attr = node.args[1].value if isinstance(node.args[1], ast.Constant) else '?'
            if attr is None:
                continue
            n_reads += 1
            if attr not in allowed:
                bad = bad or ('%s:%d' % (target.module.relpath, node.lineno), attr)
    check.instance(rule, 'payload:opaque', bad is None, bad[0] if bad else 'usim/',
                   'no attribute of a task\'s payload is read (it may be any awaitable)%s '
                   '(%d attribute reads on payloads in the package)' % (
                       ': `.%s` is' % bad[1] if bad else '', n_reads),
                   nontrivial=False)


def check_task_close(check, an: Analysis, rule: str):
    """Task.__close__ finalises every unfinished task, started or not"""
    close = an.callee(TASK, '__close__')
    seen = set()
    for path in an.paths(close):
        if not path.normal:
            continue
        unset = [e for e in path.events if e.kind == 'test'
                 and e.get('key') == ('isnone', 'self._result')]
        if unset and key_truth(unset[0]) is False:
            continue
        dones = [e for e in path.events if is_call_to(e, '__set_done__')]
        closes = [e for e in path.events if e.kind == 'call' and isinstance(
            e.node, ast.Call) and rules.text_at(path, e, e.node.func) == 'self.__runner__.close']
        started_test = [e for i, e in enumerate(path.events) if e.kind == 'test'
                        and '__runner__' in rules.value_text(path, i, e.node)]
        if not started_test:
            check.instance(rule, '__close__:distinguishes-unstarted', False, where_fn(close.fn),
                           '__close__ does not test whether the task has started',
                           path=rules.path_lines(path))
            continue
        not_started = started_test[0]['value']
        # the payload is only ever closed by the runner that wraps it (inside the handlers
        # that turn a failing clean-up into a recorded failure): __close__ itself does not
        # touch it
        touched = [e for i, e in enumerate(path.events) if e.kind in ('call', 'enter')
                   and isinstance(e.node, ast.Call)
                   and 'self.payload' in rules.value_text(path, i, e.node)]
        check.instance(rule, '__close__:payload-left-to-the-runner', not touched,
                       where_fn(close.fn), 'no call of __close__ involves the payload',
                       path=rules.path_lines(path) if touched else None, nontrivial=False)
        if not_started:
            ok = len(dones) == 1 and not closes
            seen.add('unstarted')
            what = 'an unstarted task is marked done; its runner still receives its ' \
                   'first (un-cancellable) activation'
        else:
            ok = len(closes) == 1 and not dones
            seen.add('started')
            what = 'a started task has its runner closed (the wrapper finalises it)'
        check.instance(rule, '__close__:%s' % ('unstarted' if not_started else 'started'),
                       ok, where_fn(close.fn), what, path=rules.path_lines(path))
    check.instance(rule, '__close__:both-states', seen == {'unstarted', 'started'},
                   where_fn(close.fn), '__close__ handles %s' % sorted(seen))


def _schedules_runner(event, fn) -> bool:
    """``loop.schedule(<task>.__runner__)`` undated, without a signal"""
    call = event.node
    if not isinstance(call, ast.Call) or len(call.args) != 1 or call.keywords:
        return False
    arg = call.args[0]
    return isinstance(arg, ast.Attribute) and arg.attr == '__runner__'
