"""
C20 -- every awaitable operation yields to the other runnable activities at least once.

Rule Y (must-yield): every entry -> normal-exit path of an obligated operation (async
generator: every entry|yield -> yield segment) contains a suspension site that *must*
suspend: the raw ``yield`` of ``Hibernate.__await__`` or a callee that is itself MUST.

Obligations are discovered: public coroutine / ``__await__`` / ``__aiter__`` /
``__aenter__`` / ``__aexit__`` members of every class reachable from ``usim.__all__`` and
``usim.typing.__all__`` (per concrete receiver class), plus the public module level
coroutines / async generators of the native layer.
"""
import ast

from ..engine import Analysis, short, where_fn
from ..model import AnalysisError
from ..types import Callee

PROP = 'C20'
NATIVE_EXCLUDE = ('usim.py',)

#: operations the property statement does not name (single symbols, one reason each)
EXEMPT = {
    ('usim._primitives.locks.Lock', '__aenter__'):
        'acquiring a free lock is not among the operations C20 names',
    ('usim._primitives.locks.Lock', '__aexit__'):
        'releasing a lock is not among the operations C20 names; it must stay '
        'suspension-free so that a forced close is synchronous (C09)',
    ('usim._primitives.context.Scope', '__aenter__'):
        'entering a scope is not among the operations C20 names',
    ('usim._primitives.context.InterruptScope', '__aenter__'):
        'entering an until-scope is not among the operations C20 names',
}


def exported_names(an: Analysis, module_name: str):
    module = an.p.modules.get(module_name)
    if module is None:
        raise AnalysisError('module %s not found' % module_name)
    for value, _stmt in module.assigns.get('__all__', ()):
        if isinstance(value, (ast.List, ast.Tuple)):
            return [elt.value for elt in value.elts
                    if isinstance(elt, ast.Constant) and isinstance(elt.value, str)]
    raise AnalysisError('%s.__all__ not found' % module_name)


def is_native(qn: str) -> bool:
    return not any(qn == ex or qn.startswith(ex + '.') for ex in NATIVE_EXCLUDE)


def reachable_classes(an: Analysis):
    """classes reachable from the public API through return types of public members"""
    p, te = an.p, an.te
    seeds, functions = [], []
    for module_name in ('usim', 'usim.typing'):
        module = p.modules[module_name]
        for name in exported_names(an, module_name):
            binding = p.lookup(module, name)
            if binding[0] == 'class':
                seeds.append(binding[1])
            elif binding[0] == 'func':
                functions.append(binding[1])
                fn = p.functions[binding[1]]
                for term in te.call_result(Callee(fn, None)):
                    if term[0] == 'inst':
                        seeds.append(term[1])
            elif binding[0] == 'assign':
                for term in te.binding_type(binding, module):
                    if term[0] == 'inst':
                        seeds.append(term[1])
                    elif term[0] == 'cls':
                        seeds.append(term[1])
    seen = []
    work = list(seeds)
    while work:
        qn = work.pop()
        if qn in seen or qn not in p.classes or not is_native(qn):
            continue
        seen.append(qn)
        cls = p.classes[qn]
        # subclasses of an exported class are public behaviour of that class too
        names = set()
        for entry in cls.mro:
            info = p.classes.get(entry)
            if info is not None:
                names |= set(info.methods)
        for name in sorted(names):
            if name.startswith('_') and not (name.startswith('__') and name.endswith('__')):
                continue
            method = p.find_method(qn, name)
            if method is None or method.debug_only:
                continue
            callee = Callee(method, qn)
            result = te.call_result(callee)
            if method.kind in ('coroutine', 'generator'):
                result = result | te.ret_type(callee)
            for term in result:
                if term[0] in ('inst', 'cls') and term[1] not in seen:
                    work.append(term[1])
                elif term[0] in ('coro', 'gen', 'agen'):
                    pass
        # attributes that are handed out (properties are methods above)
    return sorted(seen), functions


def obligations(an: Analysis):
    """(callee, which, label) for everything C20 obliges to yield"""
    p = an.p
    classes, functions = reachable_classes(an)
    result = []
    seen = set()

    def add(callee, which, label):
        key = callee.key() + (which,)
        if key not in seen:
            seen.add(key)
            result.append((callee, which, label))

    for qn in classes:
        cls = p.classes[qn]
        names = set()
        for entry in cls.mro:
            info = p.classes.get(entry)
            if info is not None:
                names |= set(info.methods)
        for name in sorted(names):
            method = p.find_method(qn, name)
            if method is None or method.debug_only or not is_native(method.qn):
                continue
            private = name.startswith('_') and not (
                name.startswith('__') and name.endswith('__'))
            protocol = name in ('__await__', '__aenter__', '__aexit__', '__aiter__')
            if method.kind in ('coroutine', 'asyncgen'):
                if private or (name.startswith('__') and not protocol):
                    continue
            elif not (method.kind == 'generator' and name == '__await__'):
                continue
            if (method.cls.qn, name) in EXEMPT or (qn, name) in EXEMPT:
                continue
            callee = Callee(method, qn)
            if name == '__aexit__':
                if p.is_subclass(qn, 'usim._primitives.context.Scope'):
                    add(callee, 'none', 'leaving a scope block')
                else:
                    add(callee, 'none', 'leaving the block normally')
                    add(callee, 'exc', 'leaving the block by an exception')
            else:
                add(callee, None, None)
    for module in p.modules.values():
        if not is_native(module.name):
            continue
        for name, binding in sorted(module.bindings.items()):
            if binding[0] != 'func' or name.startswith('_'):
                continue
            fn = p.functions[binding[1]]
            if fn.kind in ('coroutine', 'asyncgen') and fn.module is module:
                add(Callee(fn, None), None, None)
    return result, classes


def failing_normal_path(paths):
    for path in paths:
        if path.normal and not path.must_suspended():
            return path
    return None


def failing_segment(paths):
    """(path, start, stop) of an entry|yield -> yield segment without a MUST suspension"""
    for path in paths:
        last = 0
        for index, event in enumerate(path.events):
            if event.kind == 'yield' and event.depth == 0 and not event.data.get('plain'):
                if not path.must_suspended(last, index):
                    return path, last, index
                last = index + 1
    return None


def construct_name(callee: Callee, which) -> str:
    name = short(callee.fn.qn)
    if callee.recv and callee.fn.cls is not None and callee.recv != callee.fn.cls.qn:
        name += '[%s]' % callee.recv.rsplit('.', 1)[-1]
    if which:
        name += '{exc=%s}' % which
    return name


def run(check, an: Analysis):
    check.rule('Y', 'must-yield: every entry->normal-exit path (async generator: every '
                    'entry|yield->yield segment) passes a suspension site that MUST suspend')
    obls, classes = obligations(an)
    check.note('reachable public classes: %d; obligations discovered: %d' % (
        len(classes), len(obls)))
    for (cls_qn, name), reason in sorted(EXEMPT.items()):
        an.method(cls_qn, name)  # anchors must exist
        check.note('exempt %s.%s: %s' % (short(cls_qn), name, reason))
    for callee, which, label in obls:
        summ = an.it.summary(callee, which)
        construct = construct_name(callee, which)
        where = where_fn(callee.fn)
        if summ.paths is None:
            raise AnalysisError('too many paths in %s' % construct)
        if callee.fn.kind == 'asyncgen':
            seg = failing_segment(summ.paths)
            if seg is not None:
                seg = failing_segment(an.paths(callee, which))
            n_seg = sum(1 for path in summ.paths for e in path.events
                        if e.kind == 'yield' and e.depth == 0)
            if n_seg == 0:
                check.note('%s: no step reaches a yield (vacuous)' % construct)
                continue
            if seg is None:
                check.instance('Y', construct, True, where,
                               'every one of %d step segments over %d paths contains a '
                               'MUST suspension' % (n_seg, len(summ.paths)),
                               analysed=len(summ.paths))
            else:
                path, start, stop = seg
                lines = ['segment from %s to the yield at line %d has no MUST suspension:'
                         % ('entry' if start == 0 else 'the previous yield',
                            path.events[stop].line)]
                lines += [e.text() for e in path.events[start:stop + 1]]
                check.instance('Y', construct, False, where,
                               'an iteration step can complete without suspending',
                               path=lines, analysed=len(summ.paths))
            continue
        normal = [path for path in summ.paths if path.normal]
        if not normal:
            check.note('%s never returns normally (vacuous)' % construct)
            continue
        bad = failing_normal_path(summ.paths)
        if bad is not None:
            # decided again with the private helpers of the object run in place: what a
            # helper established (the condition holds / does not hold) then reaches the
            # tests that follow it
            bad = failing_normal_path(an.paths(callee, which))
        if bad is None:
            check.instance('Y', construct, True, where,
                           'all %d normal-exit paths (of %d paths) contain a MUST suspension'
                           % (len(normal), len(summ.paths)), analysed=len(summ.paths))
        else:
            check.instance('Y', construct, False, where,
                           'a path from entry to normal completion has no suspension '
                           'that must suspend', path=bad.describe(), analysed=len(summ.paths))
    check.floor('Y', 45, 'C20 obligations confirmed by hand')
    # "suspends" means: the others get their turn before the operation goes on.  That holds
    # only if the wake-up of a postponement is queued *behind* what is runnable now: it is a
    # signal made for this pause, not one that may still have an older place in the queue
    # (rule shared with C03)
    check.rule('W', 'postpone()/suspend() wake their caller by a signal of their own, '
                    'withdrawn on every exit')
    from . import c03, _scope
    c03.check_own_wakeup_is_fresh(check, an, 'W')
    c03._check_signal_lifecycles(
        check, an, _scope.wrapper_callee(an), rule='W',
        only=lambda fn, cls: fn.cls is None and fn.module.name == 'usim._primitives.notification')
    budget = 0
    if len(an.it.unresolved) > budget:
        raise AnalysisError('unresolved await sites: %s' % an.it.unresolved)
    # the kernel rules every suspending operation rests on (shared; see _scope)
    from . import _scope as _kernel
    _kernel.check_kernel_core(check, an)
    from . import _scope as _sc
    _sc.check_until_core(check, an)
    check.stats.update(an.stats())
