"""
C11 -- Channel broadcasts every message to every subscribed consumer, in order, once.

Structural clauses decided (DESIGN.md section 5/C11):
  P  the consumer buffer registered by ``__await__``/``__aiter__`` is deregistered on every
     exit, including the exceptional exits of every suspension/yield inside
  B  broadcast: ``put`` appends to *every* registered buffer and wakes all, only while
     open, all in one atomic block
  T  order of tests: iteration leaves only when its buffer is empty *and* the channel is
     closed; ``__await__`` raises only for "no message and closed", else returns the first
  W  no suspension between taking a message from the buffer and yielding it
  F  FIFO discipline of consumer buffers (append / popleft / [0])
"""
import ast

from ..engine import Analysis, is_call_to, is_suspension, short, where_fn, call_receiver, key_truth
from ..model import AnalysisError
from .. import rules

PROP = 'C11'
CHANNEL = 'usim._basics.streams.Channel'
CLOSED = 'usim._basics.streams.StreamClosed'
REGISTRY = 'self._consumer_buffers'


def _registry_subscript(path, index, node) -> bool:
    return isinstance(node, ast.Subscript) and \
        rules.value_text(path, index, node.value) == REGISTRY


def _registrations(path):
    """[(index, key origin, buffer origin)] of `_consumer_buffers[key] = buffer`"""
    result = []
    for index, event in enumerate(path.events):
        if event.kind == 'store' and _registry_subscript(path, index, event.node) and \
                event['value'] is not None:
            result.append((index, rules.origin(path, index, event.node.slice),
                           rules.origin(path, index, event['value'])))
    return result


def _deregistrations(path):
    return [(index, rules.origin(path, index, event.node.slice))
            for index, event in enumerate(path.events)
            if event.kind == 'del' and _registry_subscript(path, index, event.node)]


def _buffer_local(path, callee, registration):
    """name of the local of the entry function that holds the registered buffer"""
    index, _key, (_text, made_at) = registration
    value = path.events[index]['value']
    for pos, event in enumerate(path.events):
        if event.kind != 'store' or event.fn is not callee.fn or \
                not isinstance(event.node, ast.Name):
            continue
        if event.data.get('value') is value or (made_at is not None and pos == made_at):
            return event.node.id
    return None


def _is_member(it, receiver: str) -> bool:
    """``receiver`` is the buffer this iteration over the registry is at: the loop variable
    of ``.values()``, the entry of the key when the keys are walked, the second item of
    ``.items()``"""
    if it.source == REGISTRY + '.values()':
        return receiver == it.var
    if it.source in (REGISTRY, REGISTRY + '.keys()'):
        return receiver == '%s[%s]' % (REGISTRY, it.var)
    if it.source == REGISTRY + '.items()' and isinstance(it.node.target, ast.Tuple) and \
            len(it.node.target.elts) == 2:
        return receiver == ast.unparse(it.node.target.elts[1])
    return False


def run(check, an: Analysis):
    check.rule('P', 'registration pairing: `_consumer_buffers[key] = buffer` is followed by '
                    '`del _consumer_buffers[key]` on every exit (same fresh key)')
    check.rule('B', 'broadcast: put appends the item to every registered buffer and wakes '
                    'all waiters in one atomic block, dominated by `not _closed`')
    check.rule('T', 'exit tests: iteration ends only on (buffer empty and closed); '
                    '__await__ raises only on (no message and closed), else returns buffer[0]')
    check.rule('W', 'no suspension between `buffer.popleft()` and the yield of that value')
    check.rule('F', 'consumer buffers only see append / popleft / [0]')
    an.cls(CHANNEL)
    aiter = an.callee(CHANNEL, '__aiter__')
    await_ = an.callee(CHANNEL, '__await__')
    put = an.callee(CHANNEL, 'put')
    close = an.callee(CHANNEL, 'close')
    buffers = {}

    # ---- P ------------------------------------------------------------------
    for callee in (await_, aiter):
        paths = an.paths(callee)
        registered = 0
        fresh_ok, empty_ok = True, True
        exits = {}
        for path in paths:
            regs = _registrations(path)
            if not regs:
                continue
            registered += 1
            first = regs[0]
            # every subscription has its own key and its own empty buffer
            fresh_ok &= len(regs) == 1 and first[1][0] == 'object()' and \
                first[1][1] is not None
            empty_ok &= first[2][0] in ('[]', 'deque()', 'list()', 'collections.deque()')
            name = _buffer_local(path, callee, first)
            if name is not None:
                buffers.setdefault(callee.fn.qn, set()).add(name)
            dereg = [d for d in _deregistrations(path) if d[0] > first[0]]
            same_key = bool(dereg) and dereg[0][1] == first[1]
            out = path.kind if path.kind != 'raise' else 'raise ' + path.outcome[1].cls.rsplit(
                '.', 1)[-1]
            key = (out, len(dereg) == 1 and same_key)
            exits.setdefault(key, path)
        check.instance('P', '%s:registers' % short(callee.fn.qn), registered > 0,
                       where_fn(callee.fn), 'a consumer buffer is registered')
        check.instance('P', '%s:own-key-and-buffer' % short(callee.fn.qn),
                       fresh_ok and empty_ok and registered > 0, where_fn(callee.fn),
                       'registered under a fresh `object()` of this very subscription '
                       '(%s) with a new empty buffer (%s): subscriptions never share an '
                       'entry' % (fresh_ok, empty_ok))
        for (out, ok), path in sorted(exits.items(), key=lambda kv: repr(kv[0])):
            check.instance('P', '%s:exit=%s' % (short(callee.fn.qn), out), ok,
                           where_fn(callee.fn),
                           'buffer deregistered exactly once with the registering key on '
                           'this kind of exit', path=rules.path_lines(path),
                           analysed=len(paths))
    check.floor('P', 8, 'exits of Channel.__await__/__aiter__')
    # ---- B ------------------------------------------------------------------
    put_paths = an.paths(put)
    item = put.fn.node.args.args[1].arg
    loop_ok, n_iter, bad = True, 0, None
    for path in put_paths:
        for it in rules.iterations(path):
            if REGISTRY not in it.source:
                continue
            n_iter += 1
            appends = [(i, e) for i, e in it.events()
                       if e.kind == 'call' and isinstance(e.node, ast.Call)
                       and isinstance(e.node.func, ast.Attribute)
                       and e.node.func.attr == 'append'
                       and _is_member(it, rules.value_text(path, i, e.node.func.value))]
            tests = [e for _i, e in it.events() if e.kind == 'test']
            good = len(appends) == 1 and \
                not tests and rules.loop_completed(path, it.node) and \
                [rules.value_text(path, appends[0][0], a)
                 for a in appends[0][1].node.args] == [item]
            if not good:
                loop_ok, bad = False, bad or (path, it.start)
    check.instance('B', 'put:loop-over-all-buffers', loop_ok and n_iter > 0,
                   where_fn(put.fn), 'an unconditional `for buffer in '
                   '_consumer_buffers.values(): buffer.append(item)` without break/filter '
                   '(%d iterations on paths)' % n_iter,
                   path=rules.path_lines(*bad) if bad else None, analysed=n_iter)
    n_wake = 0
    for path in put_paths:
        for index, event in enumerate(path.events):
            if is_call_to(event, '__awake_all__') and event.kind == 'call':
                n_wake += 1
                open_ = rules.fact_value(event, ('truth', 'self._closed'))
                if open_ is None:
                    open_ = rules.path_atoms(path, 0, index).get(('truth', 'self._closed'))
                block = rules.atomic_block(path, index)
                looped = any(e.kind in ('iter-end',) for e in block)
                check.instance('B', 'put:wake-all-open', open_ is False and looped,
                               event.where,
                               'wake-up dominated by `_closed` false (fact=%s) and in the '
                               'same atomic block as the append loop (%s)' % (open_, looped),
                               path=rules.path_lines(path, index))
    normal_put = [p for p in put_paths if p.normal]
    check.instance('B', 'put:always-wakes', bool(normal_put) and all(
        any(is_call_to(e, '__awake_all__') for e in p.events) for p in normal_put),
        where_fn(put.fn), 'every successful put wakes all waiters')
    closed_raise = [p for p in put_paths if p.kind == 'raise' and p.outcome[1].cls == CLOSED]
    check.instance('B', 'put:closed-raises', bool(closed_raise) and all(
        not any(e.kind == 'iter-next' for e in p.events) for p in closed_raise),
        where_fn(put.fn), 'put on a closed channel raises StreamClosed and stores nothing')
    for path in an.paths(close):
        for index, event in enumerate(path.events):
            if event.kind == 'store' and event['path'] == 'self._closed':
                block = rules.atomic_block(path, index)
                woke = any(is_call_to(e, '__awake_all__') for e in block)
                check.instance('B', 'close:wake-all', woke, event.where,
                               '`_closed = True` and __awake_all__ in one atomic block',
                               path=rules.path_lines(path, index))
    # ---- T ------------------------------------------------------------------
    n_end = 0
    for path in an.paths(aiter):
        if not path.normal:
            continue
        n_end += 1
        tests = [e for e in path.events if e.kind == 'test' and e.depth == 0]
        last_susp = max([i for i, e in enumerate(path.events) if is_suspension(e)] or [-1])
        tail = [e for e in path.events[last_susp + 1:] if e.kind == 'test']
        names = buffers.get(aiter.fn.qn, {'buffer'})
        empty = any(e.get('key') and e['key'][0] == 'truth' and e['key'][1] in names
                    and e['value'] is False for e in tail)
        closed = any(e.get('key') == ('truth', 'self._closed') and e['value'] is True
                     for e in tail)
        check.instance('T', 'aiter:ends-on-empty-and-closed', empty and closed,
                       where_fn(aiter.fn),
                       'after the last suspension the buffer tested empty (%s) and the '
                       'channel closed (%s)' % (empty, closed), path=rules.path_lines(path))
    check.instance('T', 'aiter:ends', n_end > 0, where_fn(aiter.fn),
                   'iteration over a closed channel ends')
    # a consumer only ever waits for the notification after it saw -- in the same atomic
    # block -- that the channel is still open: close() wakes the consumers waiting at that
    # moment, nobody wakes one that starts to wait afterwards
    for callee in (aiter, await_):
        n_wait, wait_ok, bad = 0, True, None
        for path in an.paths(callee):
            for index, event in enumerate(path.events):
                if not (event.kind == 'susp' and event.depth == 0 and is_suspension(event)
                        and event.get('expr') is not None and rules.value_text(
                            path, index, event['expr']).startswith('self._notification')):
                    continue
                n_wait += 1
                block = rules.atomic_block(path, index)
                open_ = any(e.kind == 'test' and e.get('key') == ('truth', 'self._closed')
                            and key_truth(e) is False for e in block)
                if not open_:
                    wait_ok, bad = False, bad or (path, index)
        check.instance('T', '%s:waits-only-while-open' % callee.fn.name,
                       wait_ok and n_wait > 0, where_fn(callee.fn),
                       'every wait for the notification follows, without a suspension in '
                       'between, a test that the channel is not closed (%d waits on paths)'
                       % n_wait, path=rules.path_lines(*bad) if bad else None,
                       analysed=n_wait)
    for path in an.paths(await_):
        if path.kind == 'raise' and path.outcome[1].cls == CLOSED:
            event = [e for e in path.events if e.kind == 'raise'][-1]
            waited = any(e.kind == 'susp' and is_suspension(e) for e in path.events)
            if waited:
                empty = any(rules.fact_value(event, ('truth', name)) is False
                            for name in buffers.get(await_.fn.qn, {'buffer'}))
                closed = rules.fact_value(event, ('truth', 'self._closed')) is True
                check.instance('T', 'await:raises-only-empty-and-closed', empty and closed,
                               event.where, 'after waiting, StreamClosed only when no '
                               'message arrived (%s) and closed (%s)' % (empty, closed),
                               path=rules.path_lines(path))
            else:
                closed = rules.fact_value(event, ('truth', 'self._closed')) is True
                check.instance('T', 'await:closed-on-entry', closed, event.where,
                               'waiting on a closed channel raises at once',
                               path=rules.path_lines(path))
        elif path.kind == 'return':
            value = path.outcome[1]
            ok = isinstance(value, ast.Subscript) and isinstance(value.slice, ast.Constant) \
                and value.slice.value == 0 and ast.unparse(value.value) in buffers.get(
                    await_.fn.qn, {'buffer'})
            check.instance('T', 'await:returns-first-message', ok, where_fn(await_.fn),
                           'the first message put after subscribing is returned: %s'
                           % ast.unparse(value), path=rules.path_lines(path))
    # ---- W ------------------------------------------------------------------
    n = 0
    for path in an.paths(aiter):
        for index, event in enumerate(path.events):
            if event.kind == 'call' and call_receiver(event) in buffers.get(
                    aiter.fn.qn, {'buffer'}) and \
                    event.node.func.attr in ('popleft', 'pop') and event.get('exit') == 'normal':
                n += 1
                nxt = None
                bad = False
                for later in path.events[index + 1:]:
                    if later.kind == 'yield':
                        nxt = later
                        break
                    if is_suspension(later):
                        bad = True
                        break
                ok = nxt is not None and not bad and _yields_value(nxt, event, aiter.fn)
                check.instance('W', 'popleft->yield', ok, event.where,
                               'the popped message is yielded before any suspension',
                               path=rules.path_lines(path, index))
    check.instance('W', 'aiter:pops', n > 0, where_fn(aiter.fn),
                   'iteration takes messages from its buffer')
    # ---- F ------------------------------------------------------------------
    for callee in (aiter, await_):
        names = buffers.get(callee.fn.qn, set())
        seen = {}
        for path in an.paths(callee):
            for index, event in enumerate(path.events):
                node = event.node
                if event.kind == 'call' and isinstance(node, ast.Call) and \
                        isinstance(node.func, ast.Attribute) and \
                        isinstance(node.func.value, ast.Name) and \
                        node.func.value.id in names and event.fn is callee.fn:
                    seen[node.func.attr] = event.where
        for name, where in sorted(seen.items()):
            ok = name in ('popleft',)
            check.instance('F', '%s:buffer.%s' % (short(callee.fn.qn), name), ok, where,
                           'FIFO operation on a consumer buffer' if ok else
                           'operation breaks the FIFO discipline', nontrivial=False)
    check.instance('F', 'put:buffer.append', loop_ok and n_iter > 0, where_fn(put.fn),
                   'messages join a consumer buffer at its end', nontrivial=False)
    check.floor('F', 2)
    # every channel has state of its own, made by its constructor (a default in the class
    # body would be one object shared by all of them), and its put()/close() are over after
    # one postponement: they never wait for consumers
    for field, fresh in (('_consumer_buffers', True), ('_notification', True), ('_closed', False)):
        made = rules.constructor_field(an, CHANNEL, field)
        ok = made is not None and (not fresh or isinstance(made, (ast.Call, ast.Dict, ast.List)))
        if not fresh and made is None:
            # an immutable default in the class body is rebound per instance when it changes
            default = an.cls(CHANNEL).attrs.get(field)
            ok = isinstance(default, ast.Constant)
            made = default
        check.instance('P', 'Channel.__init__:%s' % field, ok,
                       where_fn(an.method(CHANNEL, '__init__')),
                       'set per instance by the constructor: %s' % (
                           ast.unparse(made) if made is not None else None))
    for name in ('put', 'close'):
        op = an.callee(CHANNEL, name)
        counts = set()
        for path in an.paths(op):
            if path.normal:
                counts.add(sum(1 for e in path.events if is_suspension(e) and e.depth == 0))
        check.instance('P', 'Channel.%s:one-postponement' % name, counts == {1},
                       where_fn(op.fn), 'every completed %s() suspended exactly once '
                       '(suspensions per normal path: %s)' % (name, sorted(counts)))
    # a consumer that leaves -- also one that is cancelled just as it leaves by itself --
    # does not disturb the others: a cancellation that loses the race against the end of
    # its task is disarmed (it would otherwise be thrown into the finished task and end
    # the run for every consumer); rule shared with C03/C06
    from . import c03, _scope
    from ..paths import CANCEL_TASK
    c03._check_signal_lifecycles(check, an, _scope.wrapper_callee(an), rule='P',
                                 only=lambda fn, cls: cls == CANCEL_TASK)
    # the kernel rules every suspending operation rests on (shared; see _scope)
    from . import _scope as _kernel
    _kernel.check_kernel_core(check, an)
    from . import _scope as _sc
    _sc.check_until_core(check, an)
    check.stats.update(an.stats())


def _yields_value(yield_event, pop_event, fn) -> bool:
    value = yield_event.node.value
    if value is pop_event.node:
        return True
    if isinstance(value, ast.Name):
        return any(v is pop_event.node for v in rules.local_values(fn, value.id))
    return False
