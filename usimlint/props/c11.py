"""
C11 -- Channel broadcasts every message to every subscribed consumer, in order, once.

Structural clauses decided (DESIGN.md section 5/C11):
  P  the consumer buffer registered by ``__await__``/``__aiter__`` is deregistered on every
     exit, including the exceptional exits of every suspension/yield inside
  B  broadcast: ``put`` appends to *every* registered buffer and wakes all, only while
     open, all in one atomic block
  T  order of tests: iteration leaves only when its buffer is empty *and* the channel is
     closed; ``__await__`` raises only for "no message and closed", else returns the first
  W  no suspension between taking a message from the buffer and yielding it
  F  FIFO discipline of consumer buffers (append / popleft / [0])
"""
import ast

from ..engine import Analysis, is_call_to, is_suspension, short, where_fn, call_receiver
from ..model import AnalysisError
from .. import rules

PROP = 'C11'
CHANNEL = 'usim._basics.streams.Channel'
CLOSED = 'usim._basics.streams.StreamClosed'
REGISTRY = 'self._consumer_buffers'


def _is_register(event):
    return event.kind == 'store' and event.get('base') == REGISTRY and \
        isinstance(event.node, ast.Subscript)


def _is_deregister(event):
    return event.kind == 'del' and event.get('base') == REGISTRY


def run(check, an: Analysis):
    check.rule('P', 'registration pairing: `_consumer_buffers[key] = buffer` is followed by '
                    '`del _consumer_buffers[key]` on every exit (same key)')
    check.rule('B', 'broadcast: put appends the item to every registered buffer and wakes '
                    'all waiters in one atomic block, dominated by `not _closed`')
    check.rule('T', 'exit tests: iteration ends only on (buffer empty and closed); '
                    '__await__ raises only on (no message and closed), else returns buffer[0]')
    check.rule('W', 'no suspension between `buffer.popleft()` and the yield of that value')
    check.rule('F', 'consumer buffers only see append / popleft / [0]')
    an.cls(CHANNEL)
    aiter = an.callee(CHANNEL, '__aiter__')
    await_ = an.callee(CHANNEL, '__await__')
    put = an.callee(CHANNEL, 'put')
    close = an.callee(CHANNEL, 'close')

    # ---- P ------------------------------------------------------------------
    for callee in (await_, aiter):
        paths = an.paths(callee)
        registered = 0
        exits = {}
        for path in paths:
            reg = [i for i, e in enumerate(path.events) if _is_register(e)]
            if not reg:
                continue
            registered += 1
            dereg = [i for i, e in enumerate(path.events) if _is_deregister(e) and i > reg[0]]
            same_key = bool(dereg) and ast.unparse(path.events[dereg[0]].node.slice) == \
                ast.unparse(path.events[reg[0]].node.slice)
            out = path.kind if path.kind != 'raise' else 'raise ' + path.outcome[1].cls.rsplit(
                '.', 1)[-1]
            key = (out, len(dereg) == 1 and same_key)
            exits.setdefault(key, path)
        check.instance('P', '%s:registers' % short(callee.fn.qn), registered > 0,
                       where_fn(callee.fn), 'a consumer buffer is registered')
        for (out, ok), path in sorted(exits.items(), key=lambda kv: repr(kv[0])):
            check.instance('P', '%s:exit=%s' % (short(callee.fn.qn), out), ok,
                           where_fn(callee.fn),
                           'buffer deregistered exactly once with the registering key on '
                           'this kind of exit', path=rules.path_lines(path),
                           analysed=len(paths))
    check.floor('P', 8, 'exits of Channel.__await__/__aiter__')
    # ---- B ------------------------------------------------------------------
    put_paths = an.paths(put)
    loops = [n for n in ast.walk(put.fn.node) if isinstance(n, ast.For)]
    ok_loop = False
    for loop in loops:
        iter_text = ast.unparse(loop.iter)
        if iter_text == REGISTRY + '.values()':
            simple = len(loop.body) == 1 and isinstance(loop.body[0], ast.Expr) and \
                isinstance(loop.body[0].value, ast.Call) and \
                isinstance(loop.body[0].value.func, ast.Attribute) and \
                loop.body[0].value.func.attr == 'append' and \
                isinstance(loop.body[0].value.func.value, ast.Name) and \
                isinstance(loop.target, ast.Name) and \
                loop.body[0].value.func.value.id == loop.target.id and \
                len(loop.body[0].value.args) == 1 and not loop.orelse
            item_ok = simple and isinstance(loop.body[0].value.args[0], ast.Name) and \
                rules._is_param(put.fn, loop.body[0].value.args[0].id)
            ok_loop = simple and item_ok
            check.instance('B', 'put:loop-over-all-buffers', ok_loop,
                           '%s:%d' % (put.fn.module.relpath, loop.lineno),
                           'an unconditional `for buffer in _consumer_buffers.values(): '
                           'buffer.append(item)` without break/filter')
    if not loops:
        check.instance('B', 'put:loop-over-all-buffers', False, where_fn(put.fn),
                       'put has no loop over the registered consumer buffers')
    n_wake = 0
    for path in put_paths:
        for index, event in enumerate(path.events):
            if is_call_to(event, '__awake_all__'):
                n_wake += 1
                open_ = rules.fact_value(event, ('truth', 'self._closed'))
                block = rules.atomic_block(path, index)
                looped = any(e.kind in ('iter-end',) for e in block)
                check.instance('B', 'put:wake-all-open', open_ is False and looped,
                               event.where,
                               'wake-up dominated by `_closed` false (fact=%s) and in the '
                               'same atomic block as the append loop (%s)' % (open_, looped),
                               path=rules.path_lines(path, index))
    normal_put = [p for p in put_paths if p.normal]
    check.instance('B', 'put:always-wakes', bool(normal_put) and all(
        any(is_call_to(e, '__awake_all__') for e in p.events) for p in normal_put),
        where_fn(put.fn), 'every successful put wakes all waiters')
    closed_raise = [p for p in put_paths if p.kind == 'raise' and p.outcome[1].cls == CLOSED]
    check.instance('B', 'put:closed-raises', bool(closed_raise) and all(
        not any(e.kind == 'iter-next' for e in p.events) for p in closed_raise),
        where_fn(put.fn), 'put on a closed channel raises StreamClosed and stores nothing')
    for path in an.paths(close):
        for index, event in enumerate(path.events):
            if event.kind == 'store' and event['path'] == 'self._closed':
                block = rules.atomic_block(path, index)
                woke = any(is_call_to(e, '__awake_all__') for e in block)
                check.instance('B', 'close:wake-all', woke, event.where,
                               '`_closed = True` and __awake_all__ in one atomic block',
                               path=rules.path_lines(path, index))
    # ---- T ------------------------------------------------------------------
    n_end = 0
    for path in an.paths(aiter):
        if not path.normal:
            continue
        n_end += 1
        tests = [e for e in path.events if e.kind == 'test' and e.depth == 0]
        last_susp = max([i for i, e in enumerate(path.events) if is_suspension(e)] or [-1])
        tail = [e for e in path.events[last_susp + 1:] if e.kind == 'test']
        empty = any(e.get('key') == ('truth', 'buffer') and e['value'] is False for e in tail)
        closed = any(e.get('key') == ('truth', 'self._closed') and e['value'] is True
                     for e in tail)
        check.instance('T', 'aiter:ends-on-empty-and-closed', empty and closed,
                       where_fn(aiter.fn),
                       'after the last suspension the buffer tested empty (%s) and the '
                       'channel closed (%s)' % (empty, closed), path=rules.path_lines(path))
    check.instance('T', 'aiter:ends', n_end > 0, where_fn(aiter.fn),
                   'iteration over a closed channel ends')
    for path in an.paths(await_):
        if path.kind == 'raise' and path.outcome[1].cls == CLOSED:
            event = [e for e in path.events if e.kind == 'raise'][-1]
            waited = any(e.kind == 'susp' and is_suspension(e) for e in path.events)
            if waited:
                empty = rules.fact_value(event, ('truth', 'buffer')) is False
                closed = rules.fact_value(event, ('truth', 'self._closed')) is True
                check.instance('T', 'await:raises-only-empty-and-closed', empty and closed,
                               event.where, 'after waiting, StreamClosed only when no '
                               'message arrived (%s) and closed (%s)' % (empty, closed),
                               path=rules.path_lines(path))
            else:
                closed = rules.fact_value(event, ('truth', 'self._closed')) is True
                check.instance('T', 'await:closed-on-entry', closed, event.where,
                               'waiting on a closed channel raises at once',
                               path=rules.path_lines(path))
        elif path.kind == 'return':
            value = path.outcome[1]
            ok = isinstance(value, ast.Subscript) and isinstance(value.slice, ast.Constant) \
                and value.slice.value == 0 and ast.unparse(value.value) == 'buffer'
            check.instance('T', 'await:returns-first-message', ok, where_fn(await_.fn),
                           'the first message put after subscribing is returned: %s'
                           % ast.unparse(value), path=rules.path_lines(path))
    # ---- W ------------------------------------------------------------------
    n = 0
    for path in an.paths(aiter):
        for index, event in enumerate(path.events):
            if event.kind == 'call' and call_receiver(event) == 'buffer' and \
                    event.node.func.attr in ('popleft', 'pop') and event.get('exit') == 'normal':
                n += 1
                nxt = None
                bad = False
                for later in path.events[index + 1:]:
                    if later.kind == 'yield':
                        nxt = later
                        break
                    if is_suspension(later):
                        bad = True
                        break
                ok = nxt is not None and not bad and _yields_value(nxt, event, aiter.fn)
                check.instance('W', 'popleft->yield', ok, event.where,
                               'the popped message is yielded before any suspension',
                               path=rules.path_lines(path, index))
    check.instance('W', 'aiter:pops', n > 0, where_fn(aiter.fn),
                   'iteration takes messages from its buffer')
    # ---- F ------------------------------------------------------------------
    for callee in (aiter, await_, put):
        for node in ast.walk(callee.fn.node):
            if isinstance(node, ast.Call) and isinstance(node.func, ast.Attribute) and \
                    isinstance(node.func.value, ast.Name) and node.func.value.id == 'buffer':
                name = node.func.attr
                ok = name in ('append', 'popleft')
                check.instance('F', '%s:buffer.%s' % (short(callee.fn.qn), name), ok,
                               '%s:%d' % (callee.fn.module.relpath, node.lineno),
                               'FIFO operation on a consumer buffer' if ok else
                               'operation breaks the FIFO discipline', nontrivial=False)
            if isinstance(node, ast.Call) and ast.unparse(node.func) in (
                    'deque', 'list') and node.args:
                check.instance('F', '%s:buffer-prefilled' % short(callee.fn.qn), False,
                               '%s:%d' % (callee.fn.module.relpath, node.lineno),
                               'a consumer buffer must start empty')
    check.floor('F', 2)
    check.stats.update(an.stats())


def _yields_value(yield_event, pop_event, fn) -> bool:
    value = yield_event.node.value
    if value is pop_event.node:
        return True
    if isinstance(value, ast.Name):
        return any(v is pop_event.node for v in rules.local_values(fn, value.id))
    return False
