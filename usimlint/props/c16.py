"""
C16 -- collect()/first() give the right results at the right time and abort the rest.

Structural clauses decided (DESIGN.md section 5/C16):
  collect  one scope; one non-volatile ``do`` per activity by in-order iteration; the result
           list awaits exactly those tasks in the same order, after the scope has ended
  first    the ValueError is raised before the scope is entered; every ``do`` is volatile
           (leaving the scope aborts the rest instead of waiting for it); the monitor puts
           exactly the awaited result; results are taken from one FIFO queue through
           ``islice(results, count)``; the ``yield`` lies inside the scope so that an early
           ``break``/``aclose`` reaches ``__aexit__(GeneratorExit)``
  Y        both must suspend (each step of first)
Result times are run-time values and not decided.
"""
import ast

from ..engine import Analysis, is_call_to, is_suspension, short, where_fn, tested, key_truth
from ..model import AnalysisError
from ..paths import GENEXIT
from ..types import Callee
from .. import rules
from . import c20

PROP = 'C16'
MOD = 'usim._concurrent.basics'
SCOPE = 'usim._primitives.context.Scope'
QUEUE = 'usim._basics.streams.Queue'


def run(check, an: Analysis):
    check.rule('collect', 'in-order spawn of every activity as a regular child; results '
                          'awaited in the same order after the scope')
    check.rule('first', 'count check before the scope; volatile monitors; FIFO results via '
                        'islice(count); yield inside the scope')
    check.rule('Y', 'must-yield (per step for first)')
    collect = an.fn(MOD + '.collect')
    first = an.fn(MOD + '.first')
    monitor = an.fn(MOD + '._first_monitor')

    # ---- collect ---------------------------------------------------------------
    withs = [n for n in collect.node.body if isinstance(n, ast.AsyncWith)]
    acts = collect.node.args.vararg.arg if collect.node.args.vararg else None
    ok_scope = len(withs) == 1 and ast.unparse(withs[0].items[0].context_expr) == 'Scope()' \
        and withs[0].items[0].optional_vars is not None
    scope_name = ast.unparse(withs[0].items[0].optional_vars) if ok_scope else '?'
    spawn_ok, tasks_name = False, None
    if ok_scope and len(withs[0].body) == 1 and isinstance(withs[0].body[0], ast.Assign) \
            and isinstance(withs[0].body[0].value, ast.ListComp):
        comp = withs[0].body[0].value
        gen = comp.generators[0]
        spawn_ok = len(comp.generators) == 1 and not gen.ifs and \
            ast.unparse(gen.iter) == acts and \
            ast.unparse(comp.elt) == '%s.do(%s)' % (scope_name, ast.unparse(gen.target))
        tasks_name = ast.unparse(withs[0].body[0].targets[0])
    check.instance('collect', 'collect:spawns-all-in-order', ok_scope and spawn_ok,
                   where_fn(collect), 'inside `async with Scope() as s`: '
                   '[s.do(a) for a in activities] (no filter, not volatile)')
    returns = [n for n in collect.node.body if isinstance(n, ast.Return)]
    res_ok = False
    if len(returns) == 1 and isinstance(returns[0].value, ast.ListComp) and tasks_name:
        comp = returns[0].value
        gen = comp.generators[0]
        res_ok = len(comp.generators) == 1 and not gen.ifs and \
            ast.unparse(gen.iter) == tasks_name and isinstance(comp.elt, ast.Await) and \
            ast.unparse(comp.elt.value) == ast.unparse(gen.target)
        # the return statement follows the scope block
        res_ok = res_ok and collect.node.body.index(returns[0]) > \
            collect.node.body.index(withs[0])
    check.instance('collect', 'collect:results-in-order', res_ok, where_fn(collect),
                   'after the scope: [await task for task in tasks]')
    ccallee = Callee(collect, None)
    cpaths = an.paths(ccallee)
    spawned = [e for p in cpaths for e in p.events if is_call_to(e, 'do')]
    volatile = any(any(kw.arg == 'volatile' for kw in e.node.keywords) for e in spawned)
    check.instance('collect', 'collect:regular-children', bool(spawned) and not volatile,
                   where_fn(collect), 'children are not volatile: the scope waits for them')
    # ---- first -------------------------------------------------------------------
    body = first.node.body
    withs = [n for n in body if isinstance(n, ast.AsyncWith)]
    raises = [n for n in ast.walk(first.node) if isinstance(n, ast.Raise)]
    acts = first.node.args.vararg.arg if first.node.args.vararg else None
    ok = len(withs) == 1 and len(raises) == 1 and \
        ast.unparse(raises[0].exc.func) == 'ValueError' and \
        not any(raises[0] is sub for sub in ast.walk(withs[0]))
    guard_ok = False
    for node in body:
        if isinstance(node, ast.If) and any(r is raises[0] for r in ast.walk(node)) \
                if raises else False:
            test = node.test
            guard_ok = isinstance(test, ast.Compare) and isinstance(test.ops[0], ast.Gt) and \
                ast.unparse(test.left) == 'count' and \
                ast.unparse(test.comparators[0]) == 'len(%s)' % acts and \
                body.index(node) < body.index(withs[0])
    check.instance('first', 'first:count-checked-before-scope', ok and guard_ok,
                   where_fn(first), '`count > len(activities)` raises ValueError before the '
                   'scope is entered')
    defaults = [n for n in body if isinstance(n, ast.Assign)
                and ast.unparse(n.targets[0]) == 'count']
    ok = len(defaults) == 1 and isinstance(defaults[0].value, ast.IfExp) and \
        ast.unparse(defaults[0].value.test) == 'count is not None' and \
        ast.unparse(defaults[0].value.orelse) == 'len(%s)' % acts
    check.instance('first', 'first:count-None-means-all', ok, where_fn(first),
                   'count=None yields every result')
    fcallee = Callee(first, None)
    fpaths = an.paths(fcallee)
    dos = {}
    for path in fpaths:
        for event in path.events:
            if is_call_to(event, 'do') and event.depth == 0:
                dos[id(event.node)] = event.node
    vol_ok = bool(dos) and all(
        any(kw.arg == 'volatile' and isinstance(kw.value, ast.Constant)
            and kw.value.value is True for kw in node.keywords) for node in dos.values())
    mon_ok = bool(dos) and all(
        node.args and isinstance(node.args[0], ast.Call)
        and ast.unparse(node.args[0].func) == '_first_monitor' for node in dos.values())
    loops = [n for n in ast.walk(first.node) if isinstance(n, ast.For)]
    loop_ok = len(loops) == 1 and ast.unparse(loops[0].iter) == acts and \
        not any(isinstance(n, (ast.Break, ast.Continue, ast.If)) for n in ast.walk(loops[0]))
    check.instance('first', 'first:volatile-monitors', vol_ok and mon_ok and loop_ok,
                   where_fn(first), 'one volatile _first_monitor child per activity, in '
                   'order (volatile=%s monitor=%s loop=%s)' % (vol_ok, mon_ok, loop_ok))
    queues = [n for n in body if isinstance(n, (ast.Assign, ast.AnnAssign))
              and isinstance(n.value, ast.Call) and ast.unparse(n.value.func) == 'Queue']
    afors = [n for n in ast.walk(first.node) if isinstance(n, ast.AsyncFor)]
    qname = ast.unparse(queues[0].target if isinstance(queues[0], ast.AnnAssign)
                        else queues[0].targets[0]) if queues else '?'
    ok = len(queues) == 1 and len(afors) == 1 and isinstance(afors[0].iter, ast.Call) and \
        ast.unparse(afors[0].iter.func).split('.')[-1] == 'islice' and \
        [ast.unparse(a) for a in afors[0].iter.args] == [qname, 'count']
    monitor_queue = all(any(kw.arg == 'queue' and ast.unparse(kw.value) == qname
                            for kw in node.args[0].keywords) or
                        (len(node.args[0].args) > 1 and
                         ast.unparse(node.args[0].args[1]) == qname)
                        for node in dos.values()) if mon_ok else False
    check.instance('first', 'first:fifo-results-sliced', ok and monitor_queue,
                   where_fn(first), 'winners are read from the one queue all monitors put '
                   'into, through islice(%s, count)' % qname)
    ok = len(afors) == 1 and len(afors[0].body) == 1 and \
        isinstance(afors[0].body[0], ast.Expr) and \
        isinstance(afors[0].body[0].value, ast.Yield) and \
        ast.unparse(afors[0].body[0].value.value) == ast.unparse(afors[0].target) and \
        len(withs) == 1 and any(sub is afors[0] for sub in ast.walk(withs[0]))
    check.instance('first', 'first:yield-inside-scope', ok, where_fn(first),
                   'each winner is yielded unchanged, inside the scope block')
    # closing the generator at the yield closes the scope synchronously
    closed = [p for p in fpaths if any(e.kind == 'yield' and e['exit'] == GENEXIT
                                       for e in p.events)]
    ok = bool(closed) and all(
        any(e.kind == 'susp' and e['how'] == 'aexit' and e['which'] == 'genexit'
            and is_call_to(e, '__aexit__', SCOPE) for e in p.events) and
        not any(is_suspension(e) for e in p.events[next(
            i for i, e in enumerate(p.events) if e.kind == 'yield'
            and e['exit'] == GENEXIT) + 1:]) for p in closed)
    check.instance('first', 'first:early-close-aborts-rest', ok, where_fn(first),
                   'GeneratorExit at the yield runs Scope.__aexit__(GeneratorExit) without '
                   'suspending (%d paths)' % len(closed), analysed=len(closed))
    # the monitor
    mparams = [a.arg for a in monitor.node.args.args]
    mbody = monitor.node.body
    ok = len(mbody) == 2 and isinstance(mbody[0], ast.Assign) and \
        isinstance(mbody[0].value, ast.Await) and \
        ast.unparse(mbody[0].value.value) == mparams[0] and \
        ast.unparse(mbody[1]) == 'await %s.put(%s)' % (mparams[1],
                                                      ast.unparse(mbody[0].targets[0]))
    check.instance('first', '_first_monitor', ok, where_fn(monitor),
                   'awaits the contestant and puts exactly its result')
    # aborting the rest: closing children iterates copies (a closed child removes itself)
    for name in ('_close_children', '_close_volatile'):
        fn = an.method(SCOPE, name)
        for node in ast.walk(fn.node):
            if isinstance(node, ast.For) and '_children' in ast.unparse(node.iter):
                ok = (isinstance(node.iter, ast.Call) and (
                    (isinstance(node.iter.func, ast.Attribute)
                     and node.iter.func.attr == 'copy')
                    or ast.unparse(node.iter.func) in ('list', 'tuple'))) or (
                    isinstance(node.iter, ast.Subscript)
                    and isinstance(node.iter.slice, ast.Slice))
                check.instance('first' if name == '_close_volatile' else 'collect',
                               'abort-all:%s-iterates-copy' % name, ok,
                               '%s:%d' % (fn.module.relpath, node.lineno),
                               'every remaining activity is aborted, not every second one '
                               '(`%s`)' % ast.unparse(node.iter))
    # ---- Y -------------------------------------------------------------------------
    bad = c20.failing_normal_path(cpaths)
    check.instance('Y', 'collect', bad is None, where_fn(collect),
                   'every normal exit passed a MUST suspension',
                   path=bad.describe() if bad else None, analysed=len(cpaths))
    seg = c20.failing_segment(fpaths)
    check.instance('Y', 'first:step', seg is None, where_fn(first),
                   'every step contains a MUST suspension', analysed=len(fpaths))
    check.stats.update(an.stats())
