"""
C16 -- collect()/first() give the right results at the right time and abort the rest.

Structural clauses decided (DESIGN.md section 5/C16):
  collect  one scope; one non-volatile ``do`` per activity by in-order iteration; the result
           list awaits exactly those tasks in the same order, after the scope has ended
  first    the ValueError is raised before the scope is entered; every ``do`` is volatile
           (leaving the scope aborts the rest instead of waiting for it); the monitor puts
           exactly the awaited result; results are taken from one FIFO queue through
           ``islice(results, count)``; the ``yield`` lies inside the scope so that an early
           ``break``/``aclose`` reaches ``__aexit__(GeneratorExit)``
  Y        both must suspend (each step of first)
Result times are run-time values and not decided.
"""
import ast

from ..engine import Analysis, is_call_to, is_suspension, short, where_fn, tested, key_truth
from ..model import AnalysisError
from ..paths import GENEXIT
from ..types import Callee
from .. import rules
from . import c20, _scope

PROP = 'C16'
MOD = 'usim._concurrent.basics'
SCOPE = 'usim._primitives.context.Scope'
QUEUE = 'usim._basics.streams.Queue'


def _queue_locals(path, index):
    """locals whose reaching definition is a fresh ``Queue()``"""
    names = set()
    for event in path.events[:index]:
        if event.kind == 'store' and event.depth == 0 and \
                isinstance(event.data.get('value'), ast.Call) and \
                ast.unparse(event['value'].func) == 'Queue':
            names.add(event['path'])
    return tuple(sorted(names))


def _queue_name(do_node, path, index, qparam):
    """the local queue handed to the monitor spawned at ``do_node``"""
    payload = rules.value_expr(path, index, do_node.args[0], keep=_queue_locals(path, index))
    if isinstance(payload, ast.Call):
        for kw in payload.keywords:
            if kw.arg == qparam:
                return kw.value
        if len(payload.args) > 1:
            return payload.args[1]
    return ast.Name(id='?', ctx=ast.Load())


def _spawned_function(an, first, payload):
    """the coroutine function whose call is handed to ``scope.do``: a module level one or
    one nested in ``first``"""
    if isinstance(payload, ast.Call) and isinstance(payload.func, ast.Attribute) and \
            getattr(payload.func.value, 'record_class', None):
        # a coroutine method of a record (typing.NamedTuple) built on this path
        for fn in an.p.functions.values():
            if fn.name == payload.func.attr and fn.kind == 'coroutine' and \
                    fn.cls is not None and fn.cls.qn == payload.func.value.record_class:
                return fn
        return None
    if not (isinstance(payload, ast.Call) and isinstance(payload.func, ast.Name)):
        return None
    for fn in an.p.functions.values():
        if fn.name == payload.func.id and fn.kind == 'coroutine' and (
                fn.parent is first or (fn.parent is None and fn.cls is None
                                       and fn.module is first.module)):
            return fn
    return None


def _monitor_params(monitor):
    """the parameters of the spawned coroutine that its call fills (a method: without self)"""
    names = [a.arg for a in monitor.node.args.args]
    return names[1:] if monitor.cls is not None else names


def _record_field(display, target):
    """the element of the record display that ``self.<field>`` of its method stands for"""
    names = getattr(display, 'record_fields', None) or []
    if target is None or not isinstance(display, ast.Tuple) or \
            len(names) != len(display.elts):
        return None
    if target.startswith('self[') and target[5:-1].isdigit() and target.endswith(']'):
        # (value expansion writes a field of a record as its position)
        return display.elts[int(target[5:-1])] if int(target[5:-1]) < len(names) else None
    if not target.startswith('self.') or target[5:] not in names:
        return None
    return display.elts[names.index(target[5:])]


def _monitor_queue(an, monitor):
    """the name the monitor calls ``.put`` on (a parameter or a closure variable)"""
    names = set()
    for path in an.paths(Callee(monitor, monitor.cls.qn if monitor.cls else None)):
        for index, event in enumerate(path.events):
            if event.kind in ('call', 'enter') and event.depth == 0 and \
                    is_call_to(event, 'put') and isinstance(event.node.func, ast.Attribute):
                names.add(rules.value_text(path, index, event.node.func.value))
    return names.pop() if len(names) == 1 else None


def _contains(outer, inner) -> bool:
    return any(sub is inner for sub in ast.walk(outer))


def _scope_withs(an, fn):
    """`async with <Scope instance> as name` statements of fn"""
    from ..types import Frame
    frame = Frame(fn, None, fn.module)
    result = []
    for node in ast.walk(fn.node):
        if isinstance(node, ast.AsyncWith) and len(node.items) == 1:
            ts = an.te.expr_type(node.items[0].context_expr, frame)
            if ts == an.te.inst(SCOPE) and isinstance(node.items[0].optional_vars, ast.Name):
                result.append(node)
    return result


def _is_false(expr) -> bool:
    return isinstance(expr, ast.Constant) and expr.value is False


asserted = rules.asserted


def _param_is_none(path, index, name):
    """outcome of the last `name is None` test on the *parameter* before ``index``"""
    for pos in range(index - 1, -1, -1):
        event = path.events[pos]
        if event.kind != 'test' or event.depth != 0:
            continue
        node = event.node
        if isinstance(node, ast.Compare) and len(node.ops) == 1 and \
                isinstance(node.left, ast.Name) and node.left.id == name and \
                isinstance(node.comparators[0], ast.Constant) and \
                node.comparators[0].value is None and \
                rules.reaching_store(path, pos, name) is None:
            if isinstance(node.ops[0], ast.Is):
                return bool(event['value'])
            if isinstance(node.ops[0], ast.IsNot):
                return not event['value']
    return None


def _limit_cases(path, index, expr, param):
    """[(param is None?, limit text)] for the effective count at ``index``"""
    value = rules.value_expr(path, index, expr)
    if isinstance(value, ast.IfExp):
        test = value.test
        if isinstance(test, ast.Compare) and len(test.ops) == 1 and \
                ast.unparse(test.left) == param and \
                ast.unparse(test.comparators[0]) == 'None' and \
                isinstance(test.ops[0], (ast.Is, ast.IsNot)):
            none_first = isinstance(test.ops[0], ast.Is)
            return [(none_first, ast.unparse(value.body)),
                    (not none_first, ast.unparse(value.orelse))]
        return [(None, ast.unparse(value))]
    return [(_param_is_none(path, index, param), ast.unparse(value))]


def run(check, an: Analysis):
    check.rule('collect', 'in-order spawn of every activity as a regular child; results '
                          'awaited in the same order after the scope')
    check.rule('first', 'count check before the scope; volatile monitors; FIFO results via '
                        'islice(count); yield inside the scope')
    check.rule('Y', 'must-yield (per step for first)')
    collect = an.fn(MOD + '.collect')
    first = an.fn(MOD + '.first')
    monitors = {}   # discovered: the coroutine function spawned per activity

    # ---- collect ---------------------------------------------------------------
    withs = _scope_withs(an, collect)
    acts = collect.node.args.vararg.arg if collect.node.args.vararg else None
    maps = rules.sequence_maps(collect.node)
    ok_scope = len(withs) == 1 and withs[0] in collect.node.body
    scope_name = withs[0].items[0].optional_vars.id if ok_scope else '?'
    maps = {k: m for k, m in maps.items() if m.cond is None}
    spawn = [m for m in maps.values() if ast.unparse(m.src) == acts] if acts else []
    spawn_ok = False
    if ok_scope and len(spawn) == 1:
        m = spawn[0]
        elt = m.elt
        # (the empty list an append loop fills may be made before the scope is entered)
        spawning = m.stmts[-1:] if m.kind == 'append-loop' else m.stmts
        spawn_ok = all(_contains(withs[0], st) for st in spawning) and \
            isinstance(elt, ast.Call) and \
            ast.unparse(elt.func) == '%s.do' % scope_name and \
            [ast.unparse(a) for a in elt.args] == [m.var] and \
            all(kw.arg == 'volatile' and _is_false(kw.value) for kw in elt.keywords)
    check.instance('collect', 'collect:spawns-all-in-order', ok_scope and spawn_ok,
                   where_fn(collect), 'inside `async with Scope() as s`: the task list is '
                   '[s.do(a) for a in activities] (no filter, not volatile): %s' % (
                       spawn or sorted(maps)))
    res_ok = False
    returns = [n for n in ast.walk(collect.node) if isinstance(n, ast.Return)]
    if spawn_ok and len(returns) == 1 and returns[0] in collect.node.body:
        if isinstance(returns[0].value, ast.Name):
            m2 = maps.get(returns[0].value.id)
        else:
            m2 = maps.get('<return>')
        res_ok = m2 is not None and ast.unparse(m2.src) == spawn[0].name and \
            isinstance(m2.elt, ast.Await) and ast.unparse(m2.elt.value) == m2.var and \
            all(st in collect.node.body and collect.node.body.index(st) >
                collect.node.body.index(withs[0]) for st in m2.stmts + [returns[0]])
    check.instance('collect', 'collect:results-in-order', res_ok, where_fn(collect),
                   'after the scope: [await task for task in tasks] is returned')
    ccallee = Callee(collect, None)
    cpaths = an.paths(ccallee)
    spawned = [e for p in cpaths for e in p.events if is_call_to(e, 'do') and e.depth == 0]
    volatile = any(any(kw.arg == 'volatile' and not _is_false(kw.value)
                       for kw in e.node.keywords) for e in spawned)
    sites = {id(e.node) for e in spawned}
    check.instance('collect', 'collect:regular-children',
                   len(sites) == 1 and not volatile, where_fn(collect),
                   'one spawn site; children are not volatile: the scope waits for them')
    # ---- first -------------------------------------------------------------------
    fcallee = Callee(first, None)
    fpaths = an.paths(fcallee)
    acts = first.node.args.vararg.arg if first.node.args.vararg else None
    kwonly = [a.arg for a in first.node.args.kwonlyargs] + \
        [a.arg for a in first.node.args.args]
    param = kwonly[0] if kwonly else None
    withs = _scope_withs(an, first)
    want_len = 'len(%s)' % acts
    guard_ok, guard_n, guard_bad = True, 0, None
    none_ok, none_n, none_bad = True, 0, None
    raise_ok, raise_n = True, 0
    slice_ok, slice_n, slice_bad = True, 0, None
    for path in fpaths:
        events = path.events
        entered = [i for i, e in enumerate(events) if e.kind == 'susp' and e.depth == 0
                   and e['how'] == 'aenter' and withs and e.node is withs[0]]
        if path.kind == 'raise' and path.outcome[1].cls == 'ext:ValueError' and \
                not entered:
            raise_n += 1
        if not entered:
            continue
        at = entered[0]
        limit = rules.value_text(path, at, ast.Name(id=param, ctx=ast.Load()))
        want = asserted(ast.parse('(%s) > %s' % (limit, want_len), mode='eval').body, False)
        guard_n += 1
        have = [e for i, e in enumerate(events[:at]) if e.kind == 'test' and e.depth == 0
                and asserted(rules.value_expr(path, i, e.node), e['value']) == want]
        if not have:
            guard_ok = False
            guard_bad = guard_bad or (path, at)
        for index, event in enumerate(events):
            if event.kind == 'call' and event.depth == 0 and isinstance(event.node, ast.Call) \
                    and rules.text_at(path, event, event.node.func).split('.')[-1] == 'islice':
                slice_n += 1
                args = event.node.args
                queue = rules.value_expr(path, index, args[0]) if args else None
                if len(args) != 2 or not (isinstance(queue, ast.Call) and not queue.args
                                          and ast.unparse(queue.func) == 'Queue'):
                    slice_ok = False
                    slice_bad = slice_bad or (path, index)
                    continue
                for isnone, text in _limit_cases(path, index, args[1], param):
                    none_n += 1
                    if isnone is True:
                        good = text == want_len
                    elif isnone is False:
                        good = text == param
                    else:
                        good = False
                    if not good:
                        none_ok = False
                        none_bad = none_bad or (path, index)
    check.instance('first', 'first:count-checked-before-scope',
                   guard_ok and guard_n > 0 and raise_n > 0, where_fn(first),
                   '`count > len(activities)` raises ValueError before the scope is entered '
                   '(%d entering paths, %d raising paths)' % (guard_n, raise_n),
                   path=rules.path_lines(*guard_bad) if guard_bad else None,
                   analysed=guard_n)
    check.instance('first', 'first:count-None-means-all', none_ok and none_n > 0,
                   where_fn(first), 'the slice length is len(activities) for count=None, '
                   'count otherwise (%d cases on paths)' % none_n,
                   path=rules.path_lines(*none_bad) if none_bad else None, analysed=none_n)
    # monitors: every iteration over the activities spawns exactly one volatile monitor
    vol_ok, mon_ok, loop_ok, n_do, bad_do = True, True, True, 0, None
    queues = set()
    for path in fpaths:
        events = path.events
        seg_do = None
        for index, event in enumerate(events):
            if event.depth != 0:
                continue
            if event.kind in ('iter-next', 'iter-end') and isinstance(event.node, ast.For):
                if seg_do is not None and seg_do != 1:
                    loop_ok = False
                    bad_do = bad_do or (path, index)
                seg_do = 0 if event.kind == 'iter-next' else None
                if event.kind == 'iter-next' and \
                        rules.value_text(path, index, event.node.iter) != acts:
                    loop_ok = False
                    bad_do = bad_do or (path, index)
            elif event.kind == 'test' and seg_do is not None:
                loop_ok = False  # a filter inside the spawn loop
                bad_do = bad_do or (path, index)
            elif is_call_to(event, 'do') and event.kind in ('call', 'enter'):
                n_do += 1
                if seg_do is None:
                    loop_ok = False
                    bad_do = bad_do or (path, index)
                else:
                    seg_do += 1
                node = event.node
                if not any(kw.arg == 'volatile' and isinstance(kw.value, ast.Constant)
                           and kw.value.value is True for kw in node.keywords):
                    vol_ok = False
                    bad_do = bad_do or (path, index)
                payload = rules.value_expr(path, index, node.args[0]) if node.args else None
                monitor = _spawned_function(an, first, payload)
                good = monitor is not None
                if good:
                    monitors[monitor.qn] = monitor
                    mparams = _monitor_params(monitor)
                    bound = dict(zip(mparams, payload.args))
                    bound.update({kw.arg: kw.value for kw in payload.keywords})
                    contestant = bound.get(mparams[0]) if mparams else None
                    loops = [e for e in events[:index] if e.kind == 'iter-next'
                             and e.depth == 0]
                    good = contestant is not None and bool(loops) and \
                        ast.unparse(contestant) == ast.unparse(loops[-1].node.target)
                    # where the monitor puts: a queue parameter, or a local of first()
                    # that the nested function closes over
                    target = _monitor_queue(an, monitor)
                    if good and target in mparams and target in bound:
                        queue = bound[target]
                        good = isinstance(queue, ast.Call) and \
                            ast.unparse(queue.func) == 'Queue'
                        if good:
                            queues.add(ast.unparse(_queue_name(node, path, index, target)))
                    elif good and target is not None and monitor.parent is first and \
                            target in _queue_locals(path, index):
                        queues.add(target)
                    elif good and monitor.cls is not None and \
                            _record_field(payload.func.value, target) is not None:
                        # the queue is a field of the record whose method is spawned
                        queue = _record_field(payload.func.value, target)
                        good = isinstance(queue, ast.Call) and \
                            ast.unparse(queue.func) == 'Queue'
                        kept = rules.value_expr(path, index, node.args[0],
                                                keep=_queue_locals(path, index))
                        named = _record_field(kept.func.value, target) if isinstance(
                            kept, ast.Call) and isinstance(kept.func, ast.Attribute) else None
                        if good and named is not None:
                            queues.add(ast.unparse(named))
                    else:
                        good = False
                if not good:
                    mon_ok = False
                    bad_do = bad_do or (path, index)
    check.instance('first', 'first:volatile-monitors',
                   vol_ok and mon_ok and loop_ok and n_do > 0,
                   where_fn(first), 'one volatile _first_monitor child per activity, in '
                   'order (volatile=%s monitor=%s loop=%s; %d spawns on paths)' % (
                       vol_ok, mon_ok, loop_ok, n_do),
                   path=rules.path_lines(*bad_do) if bad_do else None, analysed=n_do)
    # the queue read is the queue written
    read = set()
    afor_ok, afor_n = True, 0
    for path in fpaths:
        for index, event in enumerate(path.events):
            if event.kind == 'susp' and event.depth == 0 and event['how'] == 'anext':
                afor_n += 1
                source = rules.value_expr(path, index, event.node.iter)
                if isinstance(source, ast.Call) and \
                        ast.unparse(source.func).split('.')[-1] == 'islice' and source.args:
                    # which local holds the queue
                    raw = rules.value_expr(path, index, event.node.iter, keep=_queue_locals(
                        path, index))
                    read.add(ast.unparse(raw.args[0]) if isinstance(raw, ast.Call)
                             and raw.args else '?')
                else:
                    afor_ok = False
    check.instance('first', 'first:fifo-results-sliced',
                   slice_ok and slice_n > 0 and afor_ok and afor_n > 0
                   and len(read) == 1 and read == queues, where_fn(first),
                   'winners are read from the one Queue() all monitors put into, through '
                   'islice(queue, count) (read %s, written %s)' % (sorted(read),
                                                                  sorted(queues)),
                   path=rules.path_lines(*slice_bad) if slice_bad else None,
                   analysed=slice_n)
    # yields: the loop variable of the sliced iteration, inside the scope block
    y_ok, y_n, y_bad = True, 0, None
    for path in fpaths:
        events = path.events
        inside = False
        last_next = None
        for index, event in enumerate(events):
            if event.depth != 0:
                continue
            if event.kind == 'susp' and withs and event.node is withs[0]:
                inside = event['how'] == 'aenter' and event['exit'] == 'normal'
            elif event.kind == 'susp' and event['how'] == 'anext':
                last_next = event
            elif event.kind == 'yield':
                y_n += 1
                value = event.node.value
                good = inside and last_next is not None and value is not None and \
                    rules.value_text(path, index, value) == \
                    ast.unparse(last_next.node.target) and \
                    rules.reaching_store(path, index, ast.unparse(value)) is not None and \
                    rules.reaching_store(path, index, ast.unparse(value))[0] > \
                    events.index(last_next)
                if not good:
                    y_ok = False
                    y_bad = y_bad or (path, index)
    check.instance('first', 'first:yield-inside-scope', y_ok and y_n > 0, where_fn(first),
                   'each winner is yielded unchanged, inside the scope block '
                   '(%d yields on paths)' % y_n,
                   path=rules.path_lines(*y_bad) if y_bad else None, analysed=y_n)
    # closing the generator at the yield closes the scope synchronously
    closed = [p for p in fpaths if any(e.kind == 'yield' and e['exit'] == GENEXIT
                                       for e in p.events)]
    ok = bool(closed) and all(
        any(e.kind == 'susp' and e['how'] == 'aexit' and e['which'] == 'genexit'
            and is_call_to(e, '__aexit__', SCOPE) for e in p.events) and
        not any(is_suspension(e) for e in p.events[next(
            i for i, e in enumerate(p.events) if e.kind == 'yield'
            and e['exit'] == GENEXIT) + 1:]) for p in closed)
    check.instance('first', 'first:early-close-aborts-rest', ok, where_fn(first),
                   'GeneratorExit at the yield runs Scope.__aexit__(GeneratorExit) without '
                   'suspending (%d paths)' % len(closed), analysed=len(closed))
    # once the k results are handed out, the rest is aborted *at that moment*: from the
    # end of the result loop the scope is left without another suspension (a contestant
    # that ends in such a gap would still report, or fail on a queue closed under it)
    n_ends, gap = 0, None
    for path in an.paths(Callee(first, None)):
        ends = [i for i, e in enumerate(path.events) if e.kind == 'susp'
                and e.data.get('how') == 'anext-end' and e.depth == 0
                and e.data.get('exit') == 'normal']
        exits = [i for i, e in enumerate(path.events) if e.kind == 'susp'
                 and e.data.get('how') == 'aexit' and e.depth == 0]
        if not ends or not exits or exits[-1] < ends[-1]:
            continue
        n_ends += 1
        if any(is_suspension(e) for e in path.events[ends[-1] + 1:exits[-1]]):
            gap = gap or (path, ends[-1])
    check.instance('first', 'first:aborts-the-rest-when-the-results-are-out',
                   gap is None and n_ends > 0, where_fn(first),
                   'no suspension between the end of the result loop and the exit of the '
                   'scope (%d paths)' % n_ends,
                   path=rules.path_lines(*gap) if gap else None, analysed=n_ends)
    # the monitor
    ok, n_put = len(monitors) == 1, 0
    for monitor in monitors.values():
        mparams = _monitor_params(monitor)
        target = _monitor_queue(an, monitor)
        mpaths = an.paths(Callee(monitor, monitor.cls.qn if monitor.cls else None))
        for path in mpaths:
            puts = [(i, e) for i, e in enumerate(path.events)
                    if e.kind in ('call', 'enter') and e.depth == 0 and is_call_to(e, 'put')]
            if path.normal and len(puts) != 1:
                ok = False
            for index, event in puts:
                n_put += 1
                node = event.node
                ok &= rules.value_text(path, index, node.func.value) == target and \
                    len(node.args) == 1 and bool(mparams) and \
                    rules.value_text(path, index, node.args[0]) == 'await %s' % mparams[0]
    check.instance('first', '_first_monitor', ok and n_put > 0, where_fn(first),
                   'the spawned coroutine (%s) awaits the contestant and puts exactly its '
                   'result (%d puts on paths)' % (
                       sorted(short(q) for q in monitors), n_put))
    # results pass through the queue in the order they were put
    from . import c10, c04
    c10.check_buffer_fifo(check, an, 'first')
    # ... and are available from the very turn in which the activity ended: put() enqueues
    # the item and wakes the reader before it suspends for the first time (a result
    # published a turn later loses against a failure of the same instant)
    put = an.callee(c10.QUEUE, 'put')
    n_put_paths, late = 0, None
    for path in an.paths(put):
        appends = [i for i, e in enumerate(path.events) if e.kind == 'call' and isinstance(
            e.node, ast.Call) and isinstance(e.node.func, ast.Attribute)
            and e.node.func.attr in ('append', 'appendleft')
            and rules.receiver_at(path, e) == 'self._buffer']
        if not appends:
            continue
        n_put_paths += 1
        wakes = [i for i, e in enumerate(path.events) if is_call_to(e, '__awake_next__')
                 or is_call_to(e, '__awake_all__')]
        first_susp = min([i for i, e in enumerate(path.events) if is_suspension(e)]
                         or [len(path.events)])
        if not (appends[0] < first_susp and wakes and wakes[0] < first_susp):
            late = late or (path, appends[0])
    check.instance('first', 'Queue.put:publishes-before-it-suspends',
                   late is None and n_put_paths > 0, where_fn(put.fn),
                   'the item is enqueued and the reader woken before the first suspension '
                   'of put (%d paths)' % n_put_paths,
                   path=rules.path_lines(*late) if late else None, analysed=n_put_paths)
    # whatever ends the caller inside collect()/first() -- a failure, a cancellation, a
    # forced close -- the scope closes the remaining activities on its way out
    check.rule('abort', 'every exit of the scope of collect()/first() closes the rest')
    c04.check_close_on_every_exit(check, an, 'abort', [SCOPE])
    # the scope absorbs its own cancellation only: what interrupts the *caller* of
    # collect()/first() from outside passes through after the rest was aborted
    _scope.check_suppression(check, an, 'abort')
    _scope.check_foreign_signal_leaves_exit(check, an, 'abort')
    # a failing activity aborts the rest at that time, whatever it failed with
    _scope.check_child_failure_recorded(check, an, 'abort')
    # aborting an activity closes it whether it has started or not, and a closed activity
    # leaves whatever it was waiting for (the very pair it subscribed)
    c04.check_task_close(check, an, 'abort')
    from . import c08
    c08.check_subscription_paired(check, an, 'abort')
    # an aborted activity may hold a lock (or read from a Queue, which takes one): being
    # closed from outside must not trip the lock's ownership assertion
    from . import c09
    c09.check_forced_close_tolerated(check, an, 'abort')
    # a cancellation of the caller that loses the race against completion is disarmed
    from . import c03
    from ..paths import CANCEL_TASK
    # ... and an aborted activity leaves no timed wake-up behind (suspend/postpone
    # withdraw theirs on every exit, a forced close included)
    c03._check_signal_lifecycles(
        check, an, _scope.wrapper_callee(an), rule='abort',
        only=lambda fn, cls: cls == CANCEL_TASK or (
            fn.cls is None and fn.module.name == 'usim._primitives.notification'))
    # aborting the rest: closing children iterates copies (a closed child removes itself)
    for name in ('_close_children', '_close_volatile'):
        fn = an.method(SCOPE, name)
        for node in ast.walk(fn.node):
            if isinstance(node, ast.For) and '_children' in ast.unparse(node.iter):
                ok = (isinstance(node.iter, ast.Call) and (
                    (isinstance(node.iter.func, ast.Attribute)
                     and node.iter.func.attr == 'copy')
                    or ast.unparse(node.iter.func) in ('list', 'tuple'))) or (
                    isinstance(node.iter, ast.Subscript)
                    and isinstance(node.iter.slice, ast.Slice))
                check.instance('first' if name == '_close_volatile' else 'collect',
                               'abort-all:%s-iterates-copy' % name, ok,
                               '%s:%d' % (fn.module.relpath, node.lineno),
                               'every remaining activity is aborted, not every second one '
                               '(`%s`)' % ast.unparse(node.iter))
    # ---- Y -------------------------------------------------------------------------
    bad = c20.failing_normal_path(cpaths)
    check.instance('Y', 'collect', bad is None, where_fn(collect),
                   'every normal exit passed a MUST suspension',
                   path=bad.describe() if bad else None, analysed=len(cpaths))
    seg = c20.failing_segment(fpaths)
    check.instance('Y', 'first:step', seg is None, where_fn(first),
                   'every step contains a MUST suspension', analysed=len(fpaths))
    # the kernel rules every suspending operation rests on (shared; see _scope)
    from . import _scope as _kernel
    _kernel.check_kernel_core(check, an)
    from . import _scope as _sc
    _sc.check_scope_core(check, an, skip=('foreign', 'task-close'))
    check.stats.update(an.stats())
