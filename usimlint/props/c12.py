"""
C12 -- resources are conserved: never negative, never leaked, claims never wait.

Structural clauses decided (DESIGN.md section 5/C12):
  W  acquire/release windows: once resources changed hands (the store inside
     ``Tracked.set``, reached through ``__remove_resources__``/``__insert_resources__``)
     every exceptional exit of a later suspension site gives them back -- synchronously
     or by dispatching the compensating coroutine to the loop
  D  never negative: every debit of a supply is dominated by an established
     ``supply._available >= amount`` (test, await post-condition or usage assertion)
  S  one availability predicate: claim test == borrow wait == guard of the debit
  C  claim never waits: nothing suspends before the test, the raise is dominated by its
     negation, and no wait precedes the debit when the test passed
  G  forced close: the GeneratorExit branch of ``__aexit__`` is suspension free and
     dispatches both compensations
  T  generated arithmetic of ResourceLevels: each operator uses its own symbol,
     comparisons are joined with ``and``
"""
import ast

from ..engine import Analysis, is_call_to, is_suspension, short, where_fn, call_receiver, \
    key_truth
from ..model import AnalysisError
from ..norm import equal_bool
from ..paths import SIGNALS, GENEXIT
from ..types import Callee
from .. import rules

PROP = 'C12'
BASE = 'usim._basics.resource.BaseResources'
BORROWED = 'usim._basics.resource.BorrowedResources'
CLAIMED = 'usim._basics.resource.ClaimedResources'
CAPACITIES = 'usim._basics.resource.Capacities'
RESOURCES = 'usim._basics.resource.Resources'
TRACKED = 'usim._basics.tracked.Tracked'
LEVELS_MOD = 'usim._basics._resource_level'

INLINE = ('__remove_resources__', '__insert_resources__', 'set', '__aenter__')


def _inline(callee: Callee, depth: int) -> bool:
    name = callee.fn.name
    if name == 'set':
        return callee.fn.cls is not None and callee.fn.cls.qn == TRACKED
    if name == '__aenter__':
        # BorrowedResources.__aenter__, also when a private base class defines it
        return callee.fn.cls is not None and (
            callee.fn.cls.qn == BORROWED or callee.fn.cls.name.startswith('_'))
    return name in INLINE


def transfers(path):
    """
    events at which resources change hands: list of (index, 'debit'|'credit',
    'parent'|'own', how) -- ``how`` is 'now' (the store inside Tracked.set) or
    'dispatched' (``loop.schedule(<supply>.__xxx_resources__(...))``)
    """
    result = []
    stack = []
    for index, event in enumerate(path.events):
        if event.kind == 'enter':
            stack.append(event)
        elif event.kind == 'leave':
            if stack:
                stack.pop()
        elif event.kind == 'store' and event['path'] == 'self._value' and \
                event.fn.cls is not None and event.fn.cls.qn == TRACKED:
            for frame in reversed(stack):
                name = frame['callee'].fn.name
                if name in ('__remove_resources__', '__insert_resources__') and \
                        frame.depth == _outer_depth(stack):
                    recv = _call_receiver_text(frame.node, path, frame)
                    side = 'parent' if recv == 'self._resources' else (
                        'own' if recv == 'self' else recv)
                    kind = 'debit' if name == '__remove_resources__' else 'credit'
                    result.append((index, kind, side, 'now'))
                    break
        elif event.kind == 'call' and is_call_to(event, 'schedule') and \
                isinstance(event.node, ast.Call) and event.node.args:
            arg = event.node.args[0]
            if isinstance(arg, ast.Call) and isinstance(arg.func, ast.Attribute) and \
                    arg.func.attr in ('__remove_resources__', '__insert_resources__'):
                recv = rules.value_text(path, index, arg.func.value)
                side = 'parent' if recv == 'self._resources' else (
                    'own' if recv == 'self' else recv)
                kind = 'debit' if arg.func.attr == '__remove_resources__' else 'credit'
                result.append((index, kind, side, 'dispatched'))
    return result


def _outer_depth(stack):
    """depth of the outermost __remove/__insert frame on the stack"""
    for frame in stack:
        if frame['callee'].fn.name in ('__remove_resources__', '__insert_resources__'):
            return frame.depth
    return -1


def _call_receiver_text(node, path=None, event=None):
    """the object a method is called on, locals and records replaced by what they hold"""
    call = node.value if isinstance(node, ast.Await) else node
    if isinstance(call, ast.Call) and isinstance(call.func, ast.Attribute):
        if path is not None and event is not None:
            return rules.value_text(path, rules.event_index(path, event), call.func.value)
        return ast.unparse(call.func.value)
    return None


def _balance(events):
    """net amount held away from the parent / held in the own share after the events"""
    parent = own = 0
    for _index, kind, side, _how in events:
        delta = -1 if kind == 'debit' else 1
        if side == 'parent':
            parent += delta
        elif side == 'own':
            own += delta
    return parent, own


def run(check, an: Analysis):
    check.rule('W', 'windows: after resources changed hands, every exit gives them back '
                    '(store in Tracked.set or dispatched compensation); a successful '
                    '__aenter__ hands the duty to __aexit__')
    check.rule('D', 'never negative: each debit dominated by `supply._available >= amount`')
    check.rule('S', 'claim test, borrow wait and debit guard are the same predicate')
    # the borrow wait hands out resources on the strength of "await c returns only while c
    # holds": decided here for the comparison conditions that are awaited (C08 EXIT-PRED)
    from . import c08
    for qn in (c08.COMPARISON,):
        c08._check_exit_pred(check, an, Callee(an.method(c08.CONDITION, '__await__'), qn),
                             'Condition.__await__[%s]' % qn.rsplit('.', 1)[-1], rule='S')
    check.rule('C', 'claim never waits before taking; unavailable => ResourcesUnavailable')
    check.rule('G', 'forced close: GeneratorExit branch suspension free, both compensations '
                    'dispatched')
    check.rule('Z', 'initial levels: a share made by borrow/claim starts empty (entering it '
                    'moves the debits in); a root supply starts with its declared levels')
    check.rule('T', 'generated ResourceLevels operators use their own symbol; comparisons '
                    'are conjunctions over all fields')
    for qn in (BASE, BORROWED, CLAIMED, CAPACITIES, RESOURCES, TRACKED):
        an.cls(qn)
    receivers = [BORROWED, CLAIMED, CAPACITIES]

    # ---- W: __aenter__ -------------------------------------------------------
    for recv in receivers:
        aenter = an.callee(recv, '__aenter__')
        paths = an.inlined_paths(aenter, _inline, 4)
        label = recv.rsplit('.', 1)[-1]
        verdicts = {}
        n_taken = 0
        for path in paths:
            moves = transfers(path)
            if not moves:
                continue
            n_taken += 1
            parent, own = _balance(moves)
            if path.normal:
                ok = (parent, own) == (-1, 1)
                key = ('success', ok)
                what = 'a successful entry holds exactly the borrowed amount ' \
                       '(parent %+d, own share %+d)' % (parent, own)
            else:
                ok = (parent, own) == (0, 0)
                key = ('raise %s' % path.outcome[1].cls.rsplit('.', 1)[-1], ok)
                what = 'an interrupted entry leaves nothing behind ' \
                       '(parent %+d, own share %+d)' % (parent, own)
            verdicts.setdefault(key, (path, what))
        check.instance('W', 'BorrowedResources.__aenter__[%s]:takes' % label, n_taken > 0,
                       where_fn(aenter.fn), 'entering the block takes the resources')
        for (out, ok), (path, what) in sorted(verdicts.items(), key=lambda kv: repr(kv[0])):
            check.instance('W', 'BorrowedResources.__aenter__[%s]:%s' % (label, out), ok,
                           where_fn(aenter.fn), what, path=rules.path_lines(path),
                           analysed=len(paths))
    # ---- W: __aexit__ ---------------------------------------------------------
    for recv in receivers:
        aexit = an.callee(recv, '__aexit__')
        label = recv.rsplit('.', 1)[-1]
        for which in ('none', 'exc', 'genexit'):
            paths = an.inlined_paths(aexit, _inline, 4, which)
            verdicts = {}
            for path in paths:
                moves = transfers(path)
                parent, own = _balance(moves)
                ok = (parent, own) == (1, -1)
                out = path.kind if path.kind != 'raise' else 'raise ' + \
                    path.outcome[1].cls.rsplit('.', 1)[-1]
                verdicts.setdefault((out, ok), (path, parent, own))
            for (out, ok), (path, parent, own) in sorted(
                    verdicts.items(), key=lambda kv: repr(kv[0])):
                check.instance(
                    'W', 'BorrowedResources.__aexit__[%s]{%s}:%s' % (label, which, out), ok,
                    where_fn(aexit.fn),
                    'every way out of __aexit__ has given back exactly the borrowed amount '
                    '(parent %+d, own share %+d)' % (parent, own),
                    path=rules.path_lines(path), analysed=len(paths))
    check.floor('W', 30)
    # ---- G ------------------------------------------------------------------
    for recv in receivers:
        aexit = an.callee(recv, '__aexit__')
        label = recv.rsplit('.', 1)[-1]
        summ = an.it.summary(aexit, 'genexit')
        check.instance('G', '__aexit__[%s]{genexit}:no-suspension' % label,
                       summ.susp == 'NEVER', where_fn(aexit.fn),
                       'the forced-close branch is %s' % summ.susp)
        for path in an.paths(aexit, 'genexit'):
            dispatched = [m for m in transfers(path) if m[3] == 'dispatched']
            sides = sorted((m[1], m[2]) for m in dispatched)
            check.instance('G', '__aexit__[%s]{genexit}:dispatches-both' % label,
                           sides == [('credit', 'parent'), ('debit', 'own')],
                           where_fn(aexit.fn),
                           'dispatched compensations: %s' % sides,
                           path=rules.path_lines(path))
    # ---- D ------------------------------------------------------------------
    guard_forms = {}
    for fn, node, frame in rules.call_sites_of(an, an.method(BASE, '__remove_resources__').qn):
        where = '%s:%d' % (fn.module.relpath, node.lineno)
        recv_text = ast.unparse(node.func.value) if isinstance(node.func, ast.Attribute) \
            else '?'
        amount = ast.unparse(node.args[0]) if node.args else '?'
        # (named by what the operands hold where the call is reached: a local or a record
        # field standing for `self._resources` / `self._debits` reads the same)
        fowner = an.p.enclosing_self_class(fn)
        for which0 in (['none'] if fn.name == '__aexit__' else [None]):
            for path0 in an.paths(Callee(fn, fowner.qn if fowner else None), which0):
                hits = [i for i, e in enumerate(path0.events)
                        if e.node is node and e.kind == 'call']
                if hits and isinstance(node.func, ast.Attribute) and node.args:
                    for raw, which_text in ((node.func.value, 'recv'), (node.args[0], 'amt')):
                        held = rules.value_expr(path0, hits[0], raw)
                        if isinstance(held, ast.Name) or rules._dotted_text(held):
                            if which_text == 'recv':
                                recv_text = ast.unparse(held)
                            else:
                                amount = ast.unparse(held)
                    break
            else:
                continue
            break
        construct = '%s:debit(%s, %s)' % (short(rules.public_name(an, fn)), recv_text, amount)
        owner = an.p.enclosing_self_class(fn)
        callee = Callee(fn, owner.qn if owner else None)
        # dispatching the coroutine to the loop is a compensation, checked by rule W/G
        which_list = [None]
        if fn.name == '__aexit__':
            which_list = ['none', 'exc', 'genexit']
        verdict, how, bad_path = True, set(), None
        n_sites = 0
        for which in which_list:
            for path in an.paths(callee, which):
                for index, event in enumerate(path.events):
                    if event.node is not node or event.kind != 'call':
                        continue
                    if _is_dispatch_argument(fn, node) or any(
                            later.kind == 'call' and is_call_to(later, 'schedule')
                            and isinstance(later.node, ast.Call) and node in later.node.args
                            for later in path.events[index + 1:index + 4]):
                        how.add('dispatched-compensation')
                        continue
                    n_sites += 1
                    guard = _availability_guard(event, path, index, recv_text, amount, fn, an)
                    if guard is None:
                        verdict = False
                        bad_path = bad_path or (path, index)
                    else:
                        how.add(guard)
        if how == {'dispatched-compensation'} or (not n_sites and how):
            check.note('%s is a dispatched compensation (rules W/G)' % construct)
            continue
        if not n_sites:
            raise AnalysisError('debit site %s not reached by any path' % construct)
        check.instance('D', construct, verdict, where,
                       'debit dominated by availability of the amount: %s' % (
                           sorted(how) if verdict else 'no guard on some path'),
                       path=rules.path_lines(*bad_path) if bad_path else None,
                       assert_only=how == {'assert'}, analysed=n_sites)
        guard_forms[construct] = how
    check.floor('D', 3)
    # borrow(): non-negative amounts and nested borrows within the share (usage assertions)
    for cls_qn, needs in ((BASE, ['self._zero <= borrowed_levels']),
                          (BORROWED, ['self._debits >= borrowing._debits'])):
        borrow = an.callee(cls_qn, 'borrow')
        asserts = [n for n in ast.walk(borrow.fn.node) if isinstance(n, ast.Assert)]
        for need in needs:
            ok = any(equal_bool(a.test, need) for a in asserts)
            check.instance('D', '%s:assert(%s)' % (short(borrow.fn.qn), need), ok,
                           where_fn(borrow.fn),
                           'usage assertion `%s` present (assert-only)' % need,
                           assert_only=True, nontrivial=False)
    # claim(): the amounts pass the very checks of borrow() (non-negative, within the share)
    for cls_qn in [BASE] + [q for q in an.p.subclasses(BASE)
                            if an.p.find_method(q, 'claim') is not an.p.find_method(
                                BASE, 'claim')]:
        claim = an.callee(cls_qn, 'claim')
        kw = claim.fn.node.args.kwarg.arg if claim.fn.node.args.kwarg else 'amounts'
        forms = set()
        for path in an.paths(claim):
            if path.kind == 'return' and path.outcome[1] is not None:
                forms.add(rules.value_text(path, len(path.events), path.outcome[1]))
        check.instance('D', '%s:validated-like-borrow' % short(claim.fn.qn),
                       forms == {'ClaimedResources(self, self.borrow(**%s).limits)' % kw},
                       where_fn(claim.fn), 'a claim is made of the limits of the borrow of '
                       'the same amounts, so it passes the same usage checks: %s'
                       % sorted(forms))
    # the share of a borrow block holds the amount from the first statement of the block:
    # it is filled -- awaited, not merely dispatched -- before __aenter__ returns
    for recv in (BORROWED, CLAIMED):
        enter = an.callee(recv, '__aenter__')
        n_enter, unfilled = 0, None
        for path in an.paths(enter):
            if not path.normal:
                continue
            n_enter += 1
            filled = any(e.kind == 'susp' and e.data.get('exit') == 'normal' and (
                (is_call_to(e, '__insert_resources__') and e.data.get('expr') is not None
                 and rules.value_text(path, i, e['expr']).startswith(
                     'self.__insert_resources__('))
                # ... or the entry is the one of the base class, awaited as a whole
                or (enter.fn.cls is not None and enter.fn.cls.qn != BORROWED
                    and is_call_to(e, '__aenter__', BORROWED)))
                for i, e in enumerate(path.events))
            if not filled:
                unfilled = unfilled or path
        check.instance('W', '%s.__aenter__:share-filled-on-entry' % recv.rsplit('.', 1)[-1],
                       unfilled is None and n_enter > 0, where_fn(enter.fn),
                       'every successful entry awaited the insertion of the amount into its '
                       'own share (%d normal paths)' % n_enter,
                       path=rules.path_lines(unfilled) if unfilled else None,
                       analysed=n_enter)
    # ---- S ------------------------------------------------------------------
    b_enter = an.callee(BORROWED, '__aenter__').fn
    c_enter = an.callee(CLAIMED, '__aenter__').fn
    want = 'self._resources._available >= self._debits'
    AVAILABLE = ('le', 'self._debits', 'self._resources._available')
    seen_forms = {}
    for label, callee in (('borrow', an.callee(BORROWED, '__aenter__')),
                          ('claim', an.callee(CLAIMED, '__aenter__'))):
        for path in an.paths(callee):
            for index, event in enumerate(path.events):
                if event.kind == 'test' and event.fn is callee.fn and \
                        event.get('key') == AVAILABLE:
                    seen_forms.setdefault((label, 'test'), []).append(True)
                elif event.kind == 'test' and event.fn is callee.fn and \
                        event.depth == 0 and event.get('key') is not None and \
                        'available' in repr(event['key']).lower():
                    seen_forms.setdefault((label, 'test'), []).append(False)
                elif event.kind == 'susp' and event['how'] == 'await' and \
                        event.fn is callee.fn and event['exit'] == 'normal' and \
                        event['expr'] is not None and not is_call_to(event, '__aenter__') \
                        and not [c for c in event['callees'] if c.fn.kind == 'coroutine']:
                    # what holds once the wait is over
                    after = path.events[index + 1] if index + 1 < len(path.events) else None
                    holds = after is not None and rules.fact_value(after, AVAILABLE) is True
                    seen_forms.setdefault((label, 'await'), []).append(holds)
    for (label, kind), verdicts in sorted(seen_forms.items()):
        fn_ = b_enter if label == 'borrow' else c_enter
        check.instance('S', '%s:%s' % (short(fn_.qn), kind), all(verdicts), where_fn(fn_),
                       'the %s decides on `%s` (%d sites on paths)' % (
                           'guard' if kind == 'test' else 'wait', want, len(verdicts)))
    n_forms = len(seen_forms)
    check.instance('S', 'availability-tests-present', {('borrow', 'test'), ('borrow', 'await'),
                                                       ('claim', 'test')} <= set(seen_forms),
                   where_fn(b_enter), 'borrow tests and waits for availability, claim tests '
                   'it (%d of 3 forms found)' % n_forms)
    # ---- C ------------------------------------------------------------------
    claim = an.callee(CLAIMED, '__aenter__')
    paths = an.inlined_paths(claim, _inline, 4)
    n_raise = 0
    for path in paths:
        moves = transfers(path)
        first_move = moves[0][0] if moves else len(path.events)
        waits = [i for i, e in enumerate(path.events[:first_move]) if is_suspension(e)]
        if path.kind == 'raise' and path.outcome[1].cls.endswith('ResourcesUnavailable'):
            n_raise += 1
            event = [e for e in path.events if e.kind == 'raise'][-1]
            tests = [e for e in path.events if e.kind == 'test'
                     and (e.get('key') == AVAILABLE or equal_bool(e.node, want))]
            ok = bool(tests) and key_truth(tests[-1]) is False and not waits and not moves
            check.instance('C', 'claim:unavailable-raises', ok, event.where,
                           'ResourcesUnavailable exactly when the amount is not available '
                           'on entry, before any suspension', path=rules.path_lines(path))
        elif moves:
            if waits:
                check.instance('C', 'claim:waits-before-taking', False,
                               path.events[waits[0]].where,
                               'a claim suspends before it takes the resources',
                               path=rules.path_lines(path, waits[0]))
    check.instance('C', 'claim:never-waits', n_raise > 0, where_fn(claim.fn),
                   'no path of claim suspends before taking (%d paths)' % len(paths),
                   analysed=len(paths))
    # ---- Z ------------------------------------------------------------------
    # a share that is entered (made by borrow/claim) starts empty: __aenter__ moves its
    # debits in, __aexit__ moves them out; a root supply starts with its whole supply
    made = set()
    for base in [BASE] + an.p.subclasses(BASE):
        for name in ('borrow', 'claim'):
            method = an.p.find_method(base, name)
            if method is None:
                continue
            for path in an.paths(Callee(method, base)):
                for event in path.events:
                    for ext in event.get('externals') or ():
                        if ext[0] == 'construct' and an.p.is_subclass(ext[1], BORROWED):
                            made.add(ext[1])
    for qn in sorted(made):
        owner, values = _initial_value(an, qn, '_available')
        ok = bool(values) and values <= {'Tracked(self._levels_type())', 'Tracked(self._zero)',
                                        'Tracked(self._resources._levels_type())'}
        check.instance('Z', '%s:starts-empty' % qn.rsplit('.', 1)[-1], ok,
                       where_fn(owner) if owner else '', 'a share handed out by borrow/claim '
                       'holds nothing before it is entered: %s' % sorted(values))
    check.instance('Z', 'shares-found', made >= {BORROWED, CLAIMED},
                   where_fn(an.method(BASE, 'borrow')),
                   'borrow/claim make %s' % sorted(q.rsplit('.', 1)[-1] for q in made))
    for qn in (CAPACITIES, RESOURCES):
        owner, values = _initial_value(an, qn, '_available')
        check.instance('Z', '%s:starts-full' % qn.rsplit('.', 1)[-1],
                       bool(values) and all(v.startswith('Tracked(') for v in values)
                       and not values & {'Tracked(self._levels_type())',
                                         'Tracked(self._zero)'},
                       where_fn(owner) if owner else '',
                       'a root supply starts with its declared levels: %s' % sorted(values))
    # ---- T ------------------------------------------------------------------
    _check_templates(check, an)
    # the levels are waited for through tracked comparisons: woken exactly when they hold,
    # and true exactly when they hold *now* (rules shared with C08)
    from . import c08
    c08.check_comparison_trigger(check, an, 'S')
    c08.check_comparison_truth(check, an, 'S')
    c08.check_tracked_told(check, an, 'S')
    c08.check_resource_comparisons(check, an, 'S')
    # the kernel rules every suspending operation rests on (shared; see _scope)
    from . import _scope as _kernel
    _kernel.check_kernel_core(check, an)
    from . import _scope as _sc
    _sc.check_until_core(check, an)
    check.stats.update(an.stats())


def _is_dispatch_argument(fn, call) -> bool:
    """``loop.schedule(<call>)``: the coroutine object is only created here"""
    for node in ast.walk(fn.node):
        if isinstance(node, ast.Call) and isinstance(node.func, ast.Attribute) and \
                node.func.attr == 'schedule' and call in node.args:
            return True
    return False


def _availability_guard(event, path, index, recv_text, amount, fn, an):
    """'test' / 'await' / 'assert' if the debit is dominated by supply >= amount"""
    supply = '%s._available' % recv_text
    want = '%s >= %s' % (supply, amount)
    facts = event.data.get('facts') or {}
    for key, value in facts.items():
        if key[0] in ('truth', 'le', 'lt') and _same_predicate(key, value, supply, amount):
            # established by an if-test or as await post-condition
            origin = 'test'
            for before in reversed(path.events[:index]):
                if before.kind == 'susp' and before['how'] == 'await' and \
                        before['expr'] is not None and equal_bool(before['expr'], want):
                    origin = 'await'
                    break
                if before.kind == 'test' and equal_bool(before.node, want):
                    break
            return origin
    # usage assertion mentioning supply and amount
    for before in reversed(path.events[:index]):
        if before.kind == 'assert' and isinstance(before.node, ast.Assert):
            text = ast.unparse(before.node.test)
            if supply in text and amount in text:
                return 'assert'
    return None


def _same_predicate(key, value, supply, amount) -> bool:
    if key[0] == 'truth':
        try:
            return value is True and equal_bool(key[1], '%s >= %s' % (supply, amount))
        except SyntaxError:
            return False
    if key[0] == 'le':
        # ('le', a, b) means a <= b
        return value is True and key[1] == amount and key[2] == supply
    return False


def _check_templates(check, an: Analysis):
    module = an.p.modules.get(LEVELS_MOD)
    if module is None:
        raise AnalysisError('module %s not found' % LEVELS_MOD)
    spec = an.fn(LEVELS_MOD + '.__specialise__')
    expected = {'__add__': ('__binary_op__', '+'), '__sub__': ('__binary_op__', '-'),
                '__gt__': ('__comparison_op__', '>'), '__ge__': ('__comparison_op__', '>='),
                '__le__': ('__comparison_op__', '<='), '__lt__': ('__comparison_op__', '<'),
                '__eq__': ('__comparison_op__', '==')}
    found = {}
    for node in ast.walk(spec.node):
        if isinstance(node, ast.Assign) and len(node.targets) == 1 and \
                isinstance(node.targets[0], ast.Name) and isinstance(node.value, ast.Call) \
                and isinstance(node.value.func, ast.Name) and len(node.value.args) >= 2 \
                and isinstance(node.value.args[1], ast.Constant):
            found[node.targets[0].id] = (node.value.func.id, node.value.args[1].value, node)
    for name, (maker, symbol) in sorted(expected.items()):
        got = found.get(name)
        ok = got is not None and got[0] == maker and got[1] == symbol
        check.instance('T', 'ResourceLevels.%s' % name, ok,
                       '%s:%d' % (spec.module.relpath, got[2].lineno if got else spec.lineno),
                       '%s is generated by %s with symbol %r (found %s)' % (
                           name, maker, symbol, got[:2] if got else None))
    # __ne__ is the negation of __eq__
    # (defined in the generated class, bound there to a plain function of the module, or
    # left to the default of object, which inverts __eq__)
    special = [n for n in ast.walk(spec.node) if isinstance(n, ast.ClassDef)]
    ne = []
    for cls_node in special:
        for stmt in cls_node.body:
            if isinstance(stmt, ast.FunctionDef) and stmt.name == '__ne__':
                ne.append(stmt)
            elif isinstance(stmt, ast.Assign) and any(
                    ast.unparse(t) == '__ne__' for t in stmt.targets):
                binding = an.p.resolve_dotted(spec.module, stmt.value) \
                    if isinstance(stmt.value, (ast.Name, ast.Attribute)) else None
                target = an.p.functions.get(binding[1]) \
                    if binding and binding[0] == 'func' else None
                ne.append(target.node if target is not None else None)
    from ..norm import function_predicate, equivalent_terms, bool_term
    ok = len(special) == 1 and len(ne) <= 1
    for node in ne:
        params = [a.arg for a in node.args.args] if node is not None else []
        got = function_predicate(node) if node is not None and len(params) == 2 else None
        ok = ok and got is not None and equivalent_terms(got, bool_term(ast.parse(
            'not %s == %s' % tuple(params), mode='eval').body))
    check.instance('T', 'ResourceLevels.__ne__', ok, where_fn(spec),
                   '__ne__ is `not self == other`' if ne else
                   '__ne__ is the default of object: the inverse of __eq__')
    # templates: element-wise with the given symbol; comparisons joined by `and`
    def enclosing_loops(fn, target):
        """loops / comprehension clauses whose body contains ``target``"""
        found = []
        for node in ast.walk(fn.node):
            if isinstance(node, ast.For) and any(sub is target for stmt in node.body
                                                 for sub in ast.walk(stmt)):
                found.append((node.target, node.iter))
            elif isinstance(node, (ast.ListComp, ast.GeneratorExp, ast.SetComp)) and any(
                    sub is target for sub in ast.walk(node.elt)):
                for gen in node.generators:
                    found.append((gen.target, gen.iter))
        return found

    def field_kind(fn, expr, site, names_param):
        """'first' / 'rest' / 'all' when ``expr`` denotes a field name of ``names``"""
        resolved = rules.expand_alias(expr, fn)
        if resolved == '%s[0]' % names_param:
            return 'first'
        if isinstance(expr, ast.Name):
            for target, source in enclosing_loops(fn, site):
                if isinstance(target, ast.Name) and target.id == expr.id:
                    src = _rest_form(rules.expand_alias(source, fn))
                    if src == names_param:
                        return 'all'
                    if src == '%s[1:]' % names_param:
                        return 'rest'
        return None
    coverage = {}
    for maker, joiner in (('__binary_op__', None), ('__comparison_op__', 'and')):
        fn = an.fn('%s.%s' % (LEVELS_MOD, maker))
        params = [a.arg for a in fn.node.args.args]
        elementwise, joined, n_lines = True, True, 0
        kinds = set()
        for node in ast.walk(fn.node):
            if not isinstance(node, ast.JoinedStr):
                continue
            parts, fields = [], []
            for value in node.values:
                if isinstance(value, ast.Constant):
                    parts.append(value.value)
                elif isinstance(value, ast.FormattedValue):
                    if ast.unparse(value.value) == params[1]:
                        parts.append('{op}')
                    else:
                        kind = field_kind(fn, value.value, node, params[2])
                        fields.append((ast.unparse(value.value), kind))
                        parts.append('{F}' if kind else '{?}')
            text = ''.join(parts)
            if 'self.' not in text or 'other.' not in text:
                continue
            n_lines += 1
            compact = text.replace(' ', '')
            same_field = len(fields) >= 2 and len({f for f in fields
                                                   if 'self' not in f[0]}) == 1
            body = compact
            if joiner and body.startswith(joiner + 'self.'):
                body = body[len(joiner):]
            elif joiner and fields and fields[0][1] != 'first':
                joined = False  # a further operand that is not and-ed
            body = body.rstrip(',')
            if joiner is None and body.startswith('{F}='):
                body = body[len('{F}='):]
            if body != 'self.{F}{op}other.{F}' or not same_field:
                elementwise = False
            kinds |= {k for _t, k in fields}
        coverage[maker] = kinds
        check.instance('T', 'template:%s' % maker, elementwise and joined and n_lines > 0,
                       where_fn(fn),
                       'every generated line applies the operator symbol to the same field '
                       'of self and other%s' % (' and lines are joined with `and`'
                                                if joiner else ''))
    # every field takes part: the generators run over all `names`
    for maker in ('__binary_op__', '__comparison_op__', '__make_init__'):
        fn = an.fn('%s.%s' % (LEVELS_MOD, maker))
        names_param = [a.arg for a in fn.node.args.args][-1]
        sources = set()
        for node in ast.walk(fn.node):
            if isinstance(node, ast.For):
                sources.add(_rest_form(rules.expand_alias(node.iter, fn)))
            elif isinstance(node, ast.comprehension):
                sources.add(_rest_form(rules.expand_alias(node.iter, fn)))
        if maker == '__comparison_op__':
            ok = sources == {'%s[1:]' % names_param} and \
                coverage.get(maker) == {'first', 'rest'}
        else:
            ok = sources == {names_param}
        check.instance('T', 'template:%s:all-fields' % maker, ok, where_fn(fn),
                       'generated code runs over all field names: %s' % sorted(sources))


def _rest_form(text: str) -> str:
    """``islice(x, 1, None)`` walks what ``x[1:]`` holds"""
    try:
        node = ast.parse(text, mode='eval').body
    except SyntaxError:
        return text
    if isinstance(node, ast.Call) and ast.unparse(node.func).split('.')[-1] == 'islice' and \
            len(node.args) == 3 and not node.keywords and \
            isinstance(node.args[1], ast.Constant) and node.args[1].value == 1 and \
            isinstance(node.args[2], ast.Constant) and node.args[2].value is None:
        return '%s[1:]' % ast.unparse(node.args[0])
    return text


def _initial_value(an: Analysis, cls_qn: str, attr: str):
    """
    (defining __init__, texts of the value ``self.<attr>`` holds when construction of a
    ``cls_qn`` ends): the last store on the paths of the most derived ``__init__`` that
    stores the attribute after calling up, else what the inherited ``__init__`` leaves
    """
    target = 'self.%s' % attr
    for entry in an.p.classes[cls_qn].mro:
        info = an.p.classes.get(entry)
        init = info.methods.get('__init__') if info else None
        if init is None:
            continue
        values, silent = set(), False
        for path in an.paths(Callee(init, cls_qn)):
            if not path.normal:
                continue
            stores = [(i, e) for i, e in enumerate(path.events)
                      if e.kind == 'store' and e.get('path') == target and e.depth == 0]
            if not stores:
                silent = True
                continue
            index, event = stores[-1]
            value = event.data.get('value')
            values.add('?' if value is None else rules.value_text(path, index, value))
        if values and not silent:
            return init, values
        if values:
            return init, values | {'<inherited>'}
    return None, set()
