"""
Rules shared by the scope/task properties (C03, C04, C05, C06, C07).
"""
import ast
import dis

from ..engine import Analysis, is_call_to, is_suspension, short, where_fn, key_truth
from ..model import AnalysisError
from ..paths import SIGNALS, GENEXIT, CANCEL_TASK, CANCEL_SCOPE, CORE_INTERRUPT
from ..types import Callee, Frame
from .. import rules

TASK = 'usim._primitives.task.Task'
SCOPE = 'usim._primitives.context.Scope'
INTERRUPT_SCOPE = 'usim._primitives.context.InterruptScope'
ENV_SCOPE = 'usim.py.core.EnvironmentScope'
DONE = 'usim._primitives.task.Done'
LOOP = 'usim._core.loop.Loop'
NOTIFICATION = 'usim._primitives.notification.Notification'
CONDITION = 'usim._primitives.condition.Condition'


def scope_receivers(an: Analysis):
    result = [SCOPE] + [qn for qn in an.p.subclasses(SCOPE)]
    return sorted(set(result), key=lambda q: (q != SCOPE, q))


def check_await_children_progress(check, an: Analysis, rule: str):
    """waiting for the children never spins: between two looks at the child list (each
    finding a child still registered) the scope owner is suspended at least once -- a
    child that is done but has not deregistered yet (cancelled before its first turn)
    needs a turn of its own to do so"""
    for recv in scope_receivers(an):
        callee = an.callee(recv, '_await_children')
        label = recv.rsplit('.', 1)[-1]
        n_rounds, bad = 0, None
        for path in an.paths(callee):
            looks = [i for i, e in enumerate(path.events) if e.kind == 'test'
                     and e.get('key') == ('truth', 'self._children')
                     and key_truth(e) is True]
            ends = looks[1:] + ([len(path.events)] if path.normal else [])
            for start, stop in zip(looks, ends):
                n_rounds += 1
                if not path.must_suspended(start, stop):
                    bad = bad or (path, start)
        check.instance(rule, '_await_children[%s]:every-round-suspends' % label,
                       bad is None and n_rounds > 0, where_fn(callee.fn),
                       'a round that found children registered passes a suspension that '
                       'must suspend before the list is looked at again (%d rounds on '
                       'paths)' % n_rounds,
                       path=rules.path_lines(*bad) if bad else None, analysed=n_rounds)


def wrapper_callee(an: Analysis) -> Callee:
    """the coroutine nested in Task.__init__ that runs the payload"""
    init = an.method(TASK, '__init__')
    nested = [fn for fn in an.p.functions.values()
              if fn.parent is init and fn.kind == 'coroutine']
    if len(nested) != 1:
        raise AnalysisError('Task.__init__: expected exactly one nested coroutine '
                            '(the payload wrapper), found %d' % len(nested))
    return Callee(nested[0], TASK)


def child_finished_flag(event, path=None):
    """True / False / None: the ``failed`` argument of a ``__child_finished__`` call"""
    node = event.node
    if not isinstance(node, ast.Call):
        return None
    value = None
    for kw in node.keywords:
        if kw.arg == 'failed':
            value = kw.value
    if value is None and len(node.args) >= 2:
        value = node.args[1]
    if value is None:
        return None
    if not isinstance(value, ast.Constant) and path is not None:
        # a helper parameter: follow it to the caller's argument
        value = rules.value_expr(path, rules.event_index(path, event), value)
    if isinstance(value, ast.Constant):
        return bool(value.value)
    return None


# --------------------------------------------------------- typestate predicate
def coroutine_prologue_is_generator() -> bool:
    """
    whether a fresh coroutine of *this* interpreter has ``f_lasti != -1``

    Decided without running any coroutine: a sample ``async def`` is compiled and its
    first instruction inspected; since CPython 3.11 the code object starts with
    RETURN_GENERATOR, executed when the coroutine object is created.
    """
    namespace = {}
    code = compile('async def sample():\n    pass\n', '<usimlint-sample>', 'exec')
    for const in code.co_consts:
        if hasattr(const, 'co_code'):
            first = next(iter(dis.get_instructions(const)), None)
            return first is not None and first.opname == 'RETURN_GENERATOR'
    return False


def not_started_predicates(an: Analysis):
    """
    tests on the task runner's start state anywhere in Task:
    list of (fn, test node, form) with form in 'inspect' | 'f_lasti' | None
    """
    result = []
    for name, fn in sorted(_class_methods(an, TASK).items()):
        # locals that hold the runner (`runner = self.__runner__`)
        aliases = {t.id for n in ast.walk(fn.node) if isinstance(n, ast.Assign)
                   and isinstance(n.value, ast.Attribute) and n.value.attr == '__runner__'
                   for t in n.targets if isinstance(t, ast.Name)}
        for node in ast.walk(fn.node):
            # wherever the runner's state is compared: if-tests, conditional expressions
            # or a local that holds the outcome
            if isinstance(node, ast.Compare) and ('__runner__' in ast.unparse(node) or any(
                    isinstance(sub, ast.Name) and sub.id in aliases
                    for sub in ast.walk(node))):
                result.append((fn, node, classify_started_test(node)))
    return result


def _class_methods(an: Analysis, cls_qn: str) -> dict:
    """methods of the class and of the classes of the package it derives from (nearest
    definition wins)"""
    methods = {}
    for entry in reversed(an.p.classes[cls_qn].mro):
        info = an.p.classes.get(entry)
        if info is not None:
            methods.update(info.methods)
    return methods


def _reaches(an: Analysis, cls_qn: str, start: str, targets) -> bool:
    """``self.<name>`` uses lead from method ``start`` to one of the methods ``targets``"""
    methods = _class_methods(an, cls_qn)
    seen, todo = set(), [start]
    while todo:
        name = todo.pop()
        if name in seen or name not in methods:
            continue
        seen.add(name)
        if name in targets:
            return True
        for node in ast.walk(methods[name].node):
            if isinstance(node, ast.Attribute) and isinstance(node.value, ast.Name) and \
                    node.value.id == 'self' and node.attr in methods:
                todo.append(node.attr)
    return False


def classify_started_test(test) -> str:
    if isinstance(test, ast.Compare) and len(test.ops) == 1 and \
            isinstance(test.ops[0], (ast.Eq, ast.Is, ast.NotEq, ast.IsNot)):
        left, right = test.left, test.comparators[0]
        for a, b in ((left, right), (right, left)):
            if isinstance(a, ast.Call) and ast.unparse(a.func).split('.')[-1] == \
                    'getcoroutinestate' and ast.unparse(b).split('.')[-1] == 'CORO_CREATED':
                return 'inspect'
            if isinstance(a, ast.Attribute) and a.attr == 'f_lasti' and \
                    isinstance(b, ast.UnaryOp) and isinstance(b.op, ast.USub) and \
                    isinstance(b.operand, ast.Constant) and b.operand.value == 1:
                return 'f_lasti'
    return None


def check_typestate(check, an: Analysis, rule='typestate'):
    """the 'has not started' predicate must be sound on this interpreter"""
    preds = not_started_predicates(an)
    generator_prologue = coroutine_prologue_is_generator()
    for fn, test, form in preds:
        where = '%s:%d' % (fn.module.relpath, test.lineno)
        construct = '%s:not-started-predicate' % short(fn.qn)
        if form == 'inspect':
            check.instance(rule, construct, True, where,
                           'inspect.getcoroutinestate(...) == CORO_CREATED is sound')
        elif form == 'f_lasti':
            check.instance(rule, construct, not generator_prologue, where,
                           '`cr_frame.f_lasti == -1` is %s on this interpreter: a compiled '
                           'sample coroutine %s with RETURN_GENERATOR' % (
                               'never true' if generator_prologue else 'sound',
                               'starts' if generator_prologue else 'does not start'))
        else:
            # neither of the two known ways to ask "has this runner started?": another
            # state is compared -- which decides something else
            check.instance(rule, construct, False, where,
                           'the runner\'s state is tested with `%s`: not a test for '
                           '"has not started yet" (CORO_CREATED / f_lasti == -1)'
                           % ast.unparse(test))
    names = {fn.name for fn, _t, _f in preds}
    an.method(TASK, 'cancel')
    ok = _reaches(an, TASK, '__close__', names) and _reaches(an, TASK, 'cancel', names)
    check.instance(rule, 'Task:not-started-tests-present', ok,
                   where_fn(an.method(TASK, 'status')),
                   'closing and cancelling distinguish not-yet-started tasks (state tests '
                   'in %s)' % sorted(names))


# ------------------------------------------------------ forced-close discipline
def check_forced_close(check, an: Analysis, rule='forced-close', only_modules=None):
    """
    after GeneratorExit arrived at a suspension/yield nothing may suspend any more, and
    the exit is not swallowed (the task wrapper is the one designated sink)
    """
    wrapper = wrapper_callee(an)
    n = 0
    for fn in sorted(an.p.functions.values(), key=lambda f: f.qn):
        if fn.kind not in ('coroutine', 'asyncgen', 'generator', 'ctxgen'):
            continue
        if fn.kind == 'generator' and fn.name != '__await__':
            continue
        if only_modules and not any(fn.module.name.startswith(m) for m in only_modules):
            continue
        owner = an.p.enclosing_self_class(fn)
        recvs = [None]
        if owner is not None:
            recvs = [owner.qn] + [q for q in an.p.subclasses(owner.qn)
                                  if an.p.find_method(q, fn.name) is fn]
        for recv in recvs:
            callee = Callee(fn, recv)
            whichs = [None]
            if fn.name in ('__aexit__', '__exit__'):
                whichs = ['genexit']
            for which in whichs:
                summ = an.it.summary(callee, which)
                if summ.paths is None:
                    raise AnalysisError('too many paths in %s' % callee)
                hit = False
                bad = None
                swallowed = None
                for path in summ.paths:
                    first = None
                    for index, event in enumerate(path.events):
                        if event.kind in ('susp', 'yield', 'hole') and \
                                event.data.get('exit') == GENEXIT and first is None:
                            first = index
                        elif event.kind == 'handler' and first is None and \
                                event['exc'] == GENEXIT and \
                                getattr(event['excobj'], 'tag', None) is not None and \
                                'hole' in repr(event['excobj'].tag):
                            first = index
                    if which == 'genexit':
                        first = 0 if first is None else first
                    if first is None:
                        continue
                    hit = True
                    for index in range(first + 1, len(path.events)):
                        if is_suspension(path.events[index]) and bad is None:
                            bad = (path, index)
                    if which is None and path.normal and fn is not wrapper.fn and \
                            fn.kind != 'ctxgen' and swallowed is None:
                        # an async generator that is closed ends by returning: fine
                        if fn.kind != 'asyncgen':
                            swallowed = path
                if not hit:
                    continue
                n += 1
                construct = short(fn.qn)
                if recv and owner is not None and recv != owner.qn:
                    construct += '[%s]' % recv.rsplit('.', 1)[-1]
                check.instance(rule, '%s:no-suspension-after-close' % construct, bad is None,
                               where_fn(fn),
                               'once GeneratorExit arrived, no path reaches another '
                               'suspension point',
                               path=rules.path_lines(*bad) if bad else None,
                               analysed=len(summ.paths))
                if swallowed is not None:
                    check.instance(rule, '%s:close-not-swallowed' % construct, False,
                                   where_fn(fn),
                                   'a forced close is swallowed and the activity goes on',
                                   path=rules.path_lines(swallowed))
    return n


# ------------------------------------------------------------- own signals only
def own_signals(an: Analysis, recv: str):
    """attributes ``self.X = CancelScope(self, ...)`` set in the __init__ chain of recv"""
    own = []
    for entry in an.p.classes[recv].mro:
        info = an.p.classes.get(entry)
        init = info.methods.get('__init__') if info else None
        if init is None:
            continue
        for node in ast.walk(init.node):
            if isinstance(node, ast.Assign) and isinstance(node.value, ast.Call) and \
                    ast.unparse(node.value.func) == 'CancelScope' and \
                    isinstance(node.targets[0], ast.Attribute) and \
                    ast.unparse(node.targets[0].value) == 'self':
                own.append(node.targets[0].attr)
    return sorted(set(own))


def check_suppression(check, an: Analysis, rule: str):
    """
    ``_is_suppressed(x)`` decides by identity: true for each signal this scope created,
    false for a CancelScope that is none of them (a signal of an enclosing scope must
    pass through a nested scope)
    """
    for recv in scope_receivers(an):
        method = an.p.find_method(recv, '_is_suppressed')
        param = method.node.args.args[1].arg
        own = own_signals(an, recv)
        label = recv.rsplit('.', 1)[-1]
        callee = Callee(method, recv)
        for attr in own:
            first, second = sorted((param, 'self.%s' % attr))
            paths = an.it._paths_of(callee, {('is', first, second): True}, None,
                                    want_truth=True)
            truths = {p.outcome[2] if len(p.outcome) > 2 else 'unknown'
                      for p in paths if p.kind == 'return'}
            check.instance(rule, '%s:absorbs-own-%s' % (label, attr), truths == {True},
                           where_fn(method), '_is_suppressed(x) is true whenever x is '
                           'self.%s (a signal this scope created): %s' % (
                               attr, sorted(map(str, truths))), analysed=len(paths))
        assume = {}
        for attr in own:
            first, second = sorted((param, 'self.%s' % attr))
            assume[('is', first, second)] = False
        paths = an.it._paths_of(callee, assume, None, want_truth=True,
                                ptypes={param: an.te.inst(CANCEL_SCOPE)})
        truths = {p.outcome[2] if len(p.outcome) > 2 else 'unknown'
                  for p in paths if p.kind == 'return'}
        check.instance(rule, '%s:passes-foreign-CancelScope' % label,
                       bool(own) and truths == {False}, where_fn(method),
                       '_is_suppressed(x) is false for a CancelScope that is none of this '
                       'scope\'s own signals %s: %s' % (own, sorted(map(str, truths))),
                       analysed=len(paths))


def check_foreign_signal_leaves_exit(check, an: Analysis, rule: str):
    """
    A signal that is not the scope's own -- the cancellation of the task that owns the
    block, a forced close -- and that arrives while a regularly left block waits in
    ``__aexit__`` leaves ``__aexit__`` as an exception on every path (itself, or a
    privileged / concurrent failure of the children in its place): ``__aexit__`` was
    called without an exception, so a plain return of any value would drop the signal
    """
    for recv in scope_receivers(an):
        callee = an.callee(recv, '__aexit__')
        label = recv.rsplit('.', 1)[-1]
        n, bad = 0, None
        for path in an.paths(callee, 'none'):
            arrived = [(i, e) for i, e in enumerate(path.events)
                       if e.kind == 'susp' and e.depth == 0
                       and e.data.get('exit') in (CANCEL_TASK, GENEXIT)]
            if not arrived:
                continue
            n += 1
            if path.kind != 'raise':
                bad = bad or (path, arrived[0][0])
        check.instance(rule, '__aexit__[%s]:foreign-signal-leaves-as-exception' % label,
                       bad is None and n > 0, where_fn(callee.fn),
                       'a cancellation of the owning task or a forced close that arrives '
                       'during a regular exit is never turned into a normal return (%d '
                       'paths)' % n, path=rules.path_lines(*bad) if bad else None,
                       analysed=n)


def check_scope_told_before_done(check, an: Analysis, rule: str):
    """a task reports its end to its scope before it wakes whoever awaits it: the abort a
    failure triggers is queued ahead of the awaiters' wake-ups, so the body or a sibling
    awaiting the failed child is aborted as part of the scope rather than handed the
    child's exception first"""
    wrapper = wrapper_callee(an)
    n, bad = 0, None
    for path in an.paths(wrapper):
        told = [i for i, e in enumerate(path.events) if e.kind in ('call', 'enter')
                and is_call_to(e, '__child_finished__')]
        done = [i for i, e in enumerate(path.events) if e.kind in ('call', 'enter')
                and is_call_to(e, '__set_done__')]
        if not done:
            continue
        n += 1
        if not told or told[0] > done[0]:
            bad = bad or (path, done[0])
    check.instance(rule, 'wrapper:scope-told-before-awaiters', bad is None and n > 0,
                   where_fn(wrapper.fn), '__child_finished__ precedes __set_done__ on each '
                   'of %d paths that mark the task done' % n,
                   path=rules.path_lines(*bad) if bad else None, analysed=n)


def check_failure_is_kept_as_raised(check, an: Analysis, rule: str):
    """a task that fails keeps the very exception object its payload raised: on every path
    of the wrapper that reports a failure to the scope, the error component of the stored
    result is the exception bound by the handler that caught it (no copy, no substitute)"""
    wrapper = wrapper_callee(an)
    n, bad = 0, None
    for path in an.paths(wrapper):
        for index, event in enumerate(path.events):
            if not (event.kind in ('call', 'enter') and is_call_to(event, '__child_finished__')
                    and isinstance(event.node, ast.Call)):
                continue
            failed = [kw.value for kw in event.node.keywords if kw.arg == 'failed'] or \
                list(event.node.args[1:2])
            if not failed or rules.value_text(path, index, failed[0]) != 'True':
                continue
            n += 1
            caught = [e for e in path.events[:index] if e.kind == 'handler'
                      and e.fn is wrapper.fn]
            stores = [(i, e) for i, e in enumerate(path.events)
                      if e.kind == 'store' and e.get('path') == 'self._result'
                      and e.fn is wrapper.fn and e.data.get('value') is not None]
            name = getattr(caught[-1].node, 'name', None) if caught else None
            ok = bool(stores) and name is not None
            if ok:
                position, store = stores[-1]
                kept = rules.value_expr(path, position, store.data['value'])
                ok = isinstance(kept, ast.Tuple) and len(kept.elts) == 2 and \
                    ast.unparse(kept.elts[1]) == name
            if not ok:
                bad = bad or (path, index)
    check.instance(rule, 'wrapper:failure-kept-as-raised', bad is None and n > 0,
                   where_fn(wrapper.fn), 'the result of a failed task is (None, <the '
                   'exception the handler caught>) on each of %d failure reports' % n,
                   path=rules.path_lines(*bad) if bad else None, analysed=n)


def check_kernel_core(check, an: Analysis, rule: str = 'kernel', skip=()):
    """
    The few kernel rules every awaiting operation rests on, decided by each property that is
    built on suspension and wake-up (a kernel that delivers a stale or foreign signal ends
    the whole run, whatever the program was doing):

      wakeups    postpone()/suspend() wake their caller by a signal made for this pause and
                 withdraw it on every exit
      cancel     a cancellation that loses the race against the end of its task is disarmed
      subscribe  every notification class lets go of exactly what it was given
      schedule   the loop queues a dated activation under the date as given, dates tested
                 with `is None`
      loop       no object keeps the loop of an earlier run
    """
    from ..report import SubCheck
    from . import c01, c03, c15
    check.rule(rule, 'kernel core: wake-up signals of their own and withdrawn; lost '
                     'cancellations disarmed; subscribe/unsubscribe agree; dated activations '
                     'queued under the date as given; no loop kept (rules shared with '
                     'C01/C03/C15)')
    if 'wakeups' not in skip:
        c03.check_own_wakeup_is_fresh(check, an, rule)
    if 'cancel' not in skip or 'wakeups' not in skip:
        c03._check_signal_lifecycles(
            check, an, wrapper_callee(an), rule=rule,
            only=lambda fn, cls: ('cancel' not in skip and cls == CANCEL_TASK) or (
                'wakeups' not in skip and fn.cls is None
                and fn.module.name == 'usim._primitives.notification'))
    if 'subscribe' not in skip:
        c03._check_subscribe_protocol(SubCheck(check, rule, 'Notification'), an)
    if 'schedule' not in skip:
        c01.check_schedule_keys(check, an, rule)
        c01._check_optional_dates(check, an, rule)
        c03.check_activation_flags(check, an, rule)
    if 'loop' not in skip:
        c15.check_loop_never_kept(check, an, rule)
    if 'waitq' not in skip:
        # dated activations leave the queue smallest date first, each with its own bucket
        c01._check_waitqueues(check, an, rule)


def check_until_core(check, an: Analysis, rule: str = 'until'):
    """
    `async with until(...)` around an operation is the way to give it a deadline: every
    property of an operation that can be waited for decides that an until-block takes back
    what it subscribed -- by whichever activity it is closed -- and that closing a scope
    withdraws its own signals (cheap; rules shared with C04/C07)
    """
    from . import c07
    check.rule(rule, 'until-blocks subscribe (their activity, their own signal) and take '
                     'the same pair back when closed; closing a scope withdraws its own '
                     'signals on every way through (rules shared with C04/C07)')
    c07.check_until_pairing(check, an, rule)
    check_disable_interrupts(check, an, rule)


def check_scope_core(check, an: Analysis, rule: str = 'scope', skip=()):
    """
    The scope rules every property about tasks in scopes rests on: the closing sequence on
    every exit of __aexit__ (whatever signal arrives while it waits), a foreign signal
    leaves __aexit__ as an exception, closing loops walk copies and close every child they
    meet, only the exit closes children, Task.__close__ finalises started and unstarted
    tasks alike (rules shared with C04)
    """
    from . import c04
    check.rule(rule, 'scope core: closing sequence on every exit; foreign signals leave the '
                     'exit as exceptions; closing loops walk copies and close every child; '
                     'only the exit closes children; Task.__close__ finalises every task '
                     '(rules shared with C04)')
    receivers = scope_receivers(an)
    if 'close' not in skip:
        c04.check_close_on_every_exit(check, an, rule, receivers)
    if 'foreign' not in skip:
        check_foreign_signal_leaves_exit(check, an, rule)
    if 'copies' not in skip:
        c04.check_copy_iteration(check, an, rule)
    if 'only-exit' not in skip:
        c04.check_only_the_exit_closes(check, an, rule, receivers)
    c04.check_scope_state_private(check, an, rule)
    if 'task-close' not in skip:
        c04.check_task_close(check, an, rule)
        c04.check_payload_opaque(check, an, rule)
    if 'until' not in skip:
        check_until_core(check, an, rule)


def check_disable_interrupts(check, an: Analysis, rule: str):
    """
    whatever class the scope has, every way through its ``_disable_interrupts`` (the first
    step of closing) marks the scope closed for new tasks and withdraws each signal the
    scope created
    """
    for recv in scope_receivers(an):
        callee = Callee(an.p.find_method(recv, '_disable_interrupts'), recv)
        own = own_signals(an, recv)
        label = recv.rsplit('.', 1)[-1]
        verdict, n, bad = True, 0, None
        for path in an.paths(callee):
            if not path.normal:
                continue
            n += 1
            closed = any(e.kind == 'store' and e.get('path') == 'self._interruptable'
                         and isinstance(e.data.get('value'), ast.Constant)
                         and e.data['value'].value is False for e in path.events)
            withdrawn = set()
            for index, event in enumerate(path.events):
                node = event.node
                if event.kind not in ('call', 'enter') or not isinstance(node, ast.Call) or \
                        not isinstance(node.func, ast.Attribute):
                    continue
                if node.func.attr == 'revoke':
                    withdrawn.add(rules.value_text(path, index, node.func.value))
                elif node.func.attr == '__unsubscribe__':
                    withdrawn.update(rules.value_text(path, index, a) for a in node.args)
            if not closed or not {'self.%s' % attr for attr in own} <= withdrawn:
                verdict, bad = False, bad or path
        check.instance(rule, '%s._disable_interrupts' % label, verdict and n > 0 and bool(own),
                       where_fn(callee.fn), 'every way through marks the scope as closed for '
                       'new tasks and withdraws its own signals %s (%d paths)' % (own, n),
                       path=rules.path_lines(bad) if bad else None, analysed=n)


def check_child_failure_recorded(check, an: Analysis, rule: str):
    """whenever a child reports that it failed, its exception is recorded for the scope's
    report -- whatever state the scope is in (also while it is already closing)"""
    finished = Callee(an.p.find_method(SCOPE, '__child_finished__'), SCOPE)
    n, verdict, bad = 0, True, None
    for path in an.paths(finished):
        failed = [e for e in path.events if e.kind == 'test'
                  and e.get('key') == ('truth', 'failed')]
        if not (failed and failed[0].data.get('value') is True and path.normal):
            continue
        n += 1
        recorded = any(
            e.kind == 'call' and isinstance(e.node, ast.Call)
            and isinstance(e.node.func, ast.Attribute) and e.node.func.attr == 'append'
            and rules.value_text(path, i, e.node.func.value) == 'self._child_failures'
            for i, e in enumerate(path.events))
        if not recorded:
            verdict, bad = False, bad or path
    check.instance(rule, '__child_finished__:failure-recorded', verdict and n > 0,
                   where_fn(finished.fn), 'every way through __child_finished__(failed=True) '
                   'appends the child\'s exception to `_child_failures` (%d paths)' % n,
                   path=rules.path_lines(bad) if bad else None, analysed=n)
