"""
C13 -- Pipe shares throughput proportionally; transfers end at the fluid-model time.

Structural clauses decided (DESIGN.md section 5/C13):
  P  ``_add_subscriber(id)`` is paired with ``_del_subscriber(id)`` on every exit of
     ``transfer`` -- including the exceptional exits of every suspension site
  K  re-plan pairing: every mutation of ``_subscriptions`` re-computes the scale; every
     store to ``_throughput_scale`` wakes all transfers in the same atomic block; the
     waits of ``transfer`` lie inside ``_congested.__subscription__()``
  A  the discretised fluid model, as algebraic normal forms: scale, window rate, planned
     delay, accounting, sum over all subscriptions; UnboundedPipe's delay
Completion times up to rounding are numeric and not decided.
"""
import ast

from ..engine import Analysis, is_call_to, is_suspension, short, where_fn, \
    call_receiver, invoked
from ..model import AnalysisError
from ..norm import equal_algebra, symbols_of
from .. import rules

PROP = 'C13'
PIPE = 'usim._basics.pipe.Pipe'
UNBOUNDED = 'usim._basics.pipe.UnboundedPipe'
NOTIFICATION = 'usim._primitives.notification.Notification'


def _first_arg(event):
    node = event.node
    if isinstance(node, ast.Call) and node.args:
        return ast.unparse(node.args[0])
    return None


def _expand(expr, fn, keep=()):
    """expand single-assignment locals except those reading the clock (``keep``)"""
    import copy

    class Sub(ast.NodeTransformer):
        def visit_Name(self, node):
            if not isinstance(node.ctx, ast.Load) or node.id in keep:
                return node
            values = rules.local_values(fn, node.id)
            if len(values) == 1 and values[0] is not None and \
                    not rules._is_param(fn, node.id):
                if rules.is_current_time(values[0], fn):
                    return node
                return self.visit(copy.deepcopy(values[0]))
            return node
    return Sub().visit(copy.deepcopy(expr))


def run(check, an: Analysis):
    check.rule('P', 'subscription pairing: _add_subscriber(id) ... _del_subscriber(id) on '
                    'every exit of transfer, same identifier')
    check.rule('K', 're-plan pairing: _subscriptions mutation -> _throttle_subscribers; '
                    '_throughput_scale store -> _congested.__awake_all__ (same atomic '
                    'block); waits inside _congested.__subscription__()')
    check.rule('A', 'fluid model formulas equal their closed forms as rational functions')
    an.cls(PIPE)
    transfer = an.callee(PIPE, 'transfer')
    fn = transfer.fn
    paths = an.paths(transfer)

    # ---- P ------------------------------------------------------------------
    exits = {}
    n_add = 0
    for path in paths:
        add = [i for i, e in enumerate(path.events)
               if invoked(e, '_add_subscriber') and e.depth == 0 and e.kind != 'leave']
        if not add:
            continue
        n_add += 1
        ident = _first_arg(path.events[add[0]])
        dels = [i for i, e in enumerate(path.events)
                if is_call_to(e, '_del_subscriber') and e.depth == 0 and i > add[0]]
        same = len(dels) == 1 and _first_arg(path.events[dels[0]]) == ident
        out = path.kind if path.kind != 'raise' else 'raise ' + \
            path.outcome[1].cls.rsplit('.', 1)[-1]
        exits.setdefault((out, same), path)
    check.instance('P', 'transfer:subscribes', n_add > 0, where_fn(fn),
                   'a transfer registers its share')
    for (out, ok), path in sorted(exits.items(), key=lambda kv: repr(kv[0])):
        check.instance('P', 'transfer:exit=%s' % out, ok, where_fn(fn),
                       'the share registered by _add_subscriber is removed exactly once '
                       'with the same identifier on this kind of exit',
                       path=rules.path_lines(path), analysed=len(paths))
    check.floor('P', 5, 'normal + 4 signal exits of Pipe.transfer')
    # the identifier is private to this transfer
    values = rules.local_values(fn, ident) if ident and ident.isidentifier() else []
    fresh = len(values) == 1 and isinstance(values[0], ast.Call) and \
        ast.unparse(values[0]) == 'object()'
    check.instance('P', 'transfer:fresh-identifier', fresh, where_fn(fn),
                   'each transfer registers under a fresh `object()` key')

    # ---- K ------------------------------------------------------------------
    for name in ('_add_subscriber', '_del_subscriber'):
        callee = an.callee(PIPE, name)
        for path in an.paths(callee):
            if not path.normal:
                continue
            mut = [i for i, e in enumerate(path.events)
                   if e.kind in ('store', 'del') and e.get('base') == 'self._subscriptions']
            replan = any(is_call_to(e, '_throttle_subscribers') for e in
                         path.events[(mut[0] if mut else 0):])
            check.instance('K', '%s:replans' % name, bool(mut) and replan,
                           where_fn(callee.fn),
                           'the subscription table is changed and the scale recomputed',
                           path=rules.path_lines(path))
    for fn2, stmt, target, recvs in rules.attribute_stores(an, '_subscriptions', PIPE):
        ok = fn2.name in ('__init__', '_add_subscriber', '_del_subscriber')
        check.instance('K', 'writer:_subscriptions:%s' % short(fn2.qn), ok,
                       '%s:%d' % (fn2.module.relpath, stmt.lineno),
                       'only the subscriber bookkeeping writes the table', nontrivial=False)
    throttle = an.callee(PIPE, '_throttle_subscribers')
    n_scale = 0
    for path in an.paths(throttle):
        for index, event in enumerate(path.events):
            if event.kind == 'store' and event['path'] == 'self._throughput_scale':
                n_scale += 1
                block = rules.atomic_block(path, index)
                woke = any(is_call_to(e, '__awake_all__') and
                           call_receiver(e) == 'self._congested' for e in block)
                check.instance('K', 'scale-store:wakes-all@%d' % event.line, woke,
                               event.where,
                               'a changed scale wakes every transfer to re-plan',
                               path=rules.path_lines(path, index))
    check.instance('K', 'scale-store:both-branches', n_scale >= 2, where_fn(throttle.fn),
                   'the scale is set on the congested and on the relaxed branch')
    for fn2, stmt, target, recvs in rules.attribute_stores(an, '_throughput_scale', PIPE):
        ok = fn2.name in ('__init__', '_throttle_subscribers')
        check.instance('K', 'writer:_throughput_scale:%s' % short(fn2.qn), ok,
                       '%s:%d' % (fn2.module.relpath, stmt.lineno),
                       'only _throttle_subscribers changes the scale', nontrivial=False)
    # waits inside the congestion subscription
    n_wait = 0
    for path in paths:
        depth_ctx = 0
        for index, event in enumerate(path.events):
            if event.kind == 'ctx-enter' and event.depth == 0 and \
                    event['callee'].fn.name == '__subscription__' and \
                    ast.unparse(event.node.items[0].context_expr).startswith(
                        'self._congested.'):
                depth_ctx += 1
            elif event.kind == 'ctx-exit' and event.depth == 0:
                depth_ctx -= 1
            elif event.kind == 'susp' and event.depth == 0 and is_suspension(event):
                n_wait += 1
                if depth_ctx <= 0:
                    check.instance('K', 'wait-outside-subscription@%d' % event.line, False,
                                   event.where, 'a transfer waits without listening for '
                                   'congestion changes', path=rules.path_lines(path, index))
    check.instance('K', 'waits-inside-subscription', n_wait > 0, where_fn(fn),
                   '%d wait events, all inside `with self._congested.__subscription__()`'
                   % n_wait, analysed=n_wait)

    # ---- A ------------------------------------------------------------------
    # roles discovered from the code
    add_calls = [n for n in ast.walk(fn.node) if isinstance(n, ast.Call)
                 and isinstance(n.func, ast.Attribute) and n.func.attr == '_add_subscriber']
    if len(add_calls) != 1 or len(add_calls[0].args) != 2:
        raise AnalysisError('Pipe.transfer: _add_subscriber(identifier, limit) call not found')
    limit = ast.unparse(add_calls[0].args[1])
    params = [a.arg for a in fn.node.args.args]
    if len(params) < 2:
        raise AnalysisError('Pipe.transfer: parameters changed')
    total = params[1]
    loops = [n for n in ast.walk(fn.node) if isinstance(n, ast.While)]
    augs = [n for loop in loops for n in ast.walk(loop) if isinstance(n, ast.AugAssign)
            and isinstance(n.op, ast.Add) and isinstance(n.target, ast.Name)]
    if len(augs) != 1:
        raise AnalysisError('Pipe.transfer: accounting statement (acc += ...) not found')
    acc = augs[0].target.id
    scale = 'self._throughput_scale'
    suspends = [n for n in ast.walk(fn.node) if isinstance(n, ast.Call)
                and ast.unparse(n.func) == 'suspend']
    if not suspends:
        raise AnalysisError('Pipe.transfer: suspend(...) call not found')
    for call in suspends:
        delay_kw = [kw.value for kw in call.keywords if kw.arg == 'delay']
        where = '%s:%d' % (fn.module.relpath, call.lineno)
        if not delay_kw:
            check.instance('A', 'transfer:planned-delay', False, where,
                           'suspend() is not given a relative delay')
            continue
        got = _expand(delay_kw[0], fn)
        want = '(%s - %s) / (%s * %s)' % (total, acc, limit, scale)
        check.instance('A', 'transfer:planned-delay', equal_algebra(got, want), where,
                       'delay == (total - transferred) / (limit * scale): %s'
                       % ast.unparse(got))
    # accounting: acc += elapsed * limit * scale with the rate captured before the wait
    aug = augs[0]
    clock_locals = [name for name in {n.id for n in ast.walk(aug.value)
                                      if isinstance(n, ast.Name)}
                    if any(v is not None and rules.is_current_time(v, fn)
                           for v in rules.local_values(fn, name))]
    got = _expand(aug.value, fn, keep=clock_locals)
    where = '%s:%d' % (fn.module.relpath, aug.lineno)
    ok_form = False
    order = None
    if len(clock_locals) == 2:
        for start, end in (clock_locals, clock_locals[::-1]):
            want = '(%s - %s) * %s * %s' % (end, start, limit, scale)
            if equal_algebra(got, want):
                ok_form = True
                order = (start, end)
    check.instance('A', 'transfer:accounting', ok_form, where,
                   'transferred += (window_end - window_start) * limit * scale: %s'
                   % ast.unparse(got))
    if order is not None:
        start, end = order
        bad = None
        n_iter = 0
        for path in paths:
            for index, event in enumerate(path.events):
                if event.kind == 'store' and event['path'] == acc and event['aug'] is not None:
                    n_iter += 1
                    # walk back within this iteration
                    seen_end = seen_wait = seen_start = seen_rate = False
                    for before in reversed(path.events[:index]):
                        if before.kind == 'store' and before['path'] == acc and \
                                before['aug'] is not None:
                            break
                        if before.kind == 'store' and before['path'] == end \
                                and not seen_wait:
                            seen_end = True
                        elif before.kind == 'susp' and before.depth == 0 and \
                                is_suspension(before):
                            seen_wait = True
                        elif before.kind == 'store' and before['path'] == start \
                                and seen_wait:
                            seen_start = True
                        elif before.kind == 'store' and before.depth == 0 and seen_wait \
                                and before['value'] is not None and \
                                '_throughput_scale' in ast.unparse(before['value']):
                            seen_rate = True
                    if not (seen_end and seen_wait and seen_start and seen_rate):
                        bad = bad or (path, index)
        check.instance('A', 'transfer:window-order', bad is None and n_iter > 0, where,
                       'per window: start time and rate are read before the wait, end time '
                       'after it (%d windows on %d paths)' % (n_iter, len(paths)),
                       path=rules.path_lines(*bad) if bad else None, analysed=n_iter)
    # scale formula
    tfn = throttle.fn
    for path in an.paths(throttle):
        for index, event in enumerate(path.events):
            if event.kind == 'store' and event['path'] == 'self._throughput_scale':
                value = _expand(event['value'], tfn)
                guard = [e for e in path.events[:index] if e.kind == 'test']
                text = ast.unparse(value)
                if isinstance(event['value'], ast.Constant):
                    ok = float(event['value'].value) == 1.0 and bool(guard) and \
                        _is_overload_test(guard[0], tfn) and guard[0]['value'] is False
                    check.instance('A', 'scale:uncongested=1', ok, event.where,
                                   'scale is 1 when the demand does not exceed the '
                                   'throughput', path=rules.path_lines(path, index))
                else:
                    want = 'self.throughput / sum(self._subscriptions.values())'
                    ok = equal_algebra(value, want) and bool(guard) and \
                        _is_overload_test(guard[0], tfn) and guard[0]['value'] is True
                    check.instance('A', 'scale:congested=throughput/sum', ok, event.where,
                                   'scale == throughput / sum(all limits) under '
                                   '`sum > throughput`: %s' % text,
                                   path=rules.path_lines(path, index))
    # UnboundedPipe
    an.cls(UNBOUNDED)
    utransfer = an.callee(UNBOUNDED, 'transfer')
    ufn = utransfer.fn
    uparams = [a.arg for a in ufn.node.args.args]
    for call in [n for n in ast.walk(ufn.node) if isinstance(n, ast.Call)
                 and ast.unparse(n.func) == 'suspend']:
        delay_kw = [kw.value for kw in call.keywords if kw.arg == 'delay']
        got = _expand(delay_kw[0], ufn) if delay_kw else None
        want = '%s / %s' % (uparams[1], uparams[2])
        check.instance('A', 'unbounded:delay=total/limit', got is not None and
                       equal_algebra(got, want),
                       '%s:%d' % (ufn.module.relpath, call.lineno),
                       'delay == total / limit: %s' % (ast.unparse(got) if got else None))
    upaths = an.paths(utransfer)
    waits = 0
    for path in upaths:
        if path.normal:
            for event in path.events:
                if event.kind == 'susp' and is_call_to(event, 'suspend'):
                    infinite = rules.fact_value(event, ('isnone', uparams[2]))
                    if infinite is not False:
                        check.instance('A', 'unbounded:unlimited-no-wait', False,
                                       event.where, 'an unlimited transfer must not wait')
                    waits += 1
    check.instance('A', 'unbounded:paths', waits > 0, where_fn(ufn),
                   'limited transfers through an unbounded pipe wait total/limit',
                   analysed=len(upaths))
    check.stats.update(an.stats())


def _is_overload_test(event, fn) -> bool:
    """``sum(self._subscriptions.values()) > self.throughput`` in any orientation"""
    node = event.node
    if not (isinstance(node, ast.Compare) and len(node.ops) == 1):
        return False
    left = ast.unparse(_expand(node.left, fn))
    right = ast.unparse(_expand(node.comparators[0], fn))
    demand = 'sum(self._subscriptions.values())'
    supply = 'self.throughput'
    op = node.ops[0]
    if left == demand and right == supply and isinstance(op, ast.Gt):
        return True
    if left == supply and right == demand and isinstance(op, ast.Lt):
        return True
    return False
