"""
C13 -- Pipe shares throughput proportionally; transfers end at the fluid-model time.

Structural clauses decided (DESIGN.md section 5/C13):
  P  ``_add_subscriber(id)`` is paired with ``_del_subscriber(id)`` on every exit of
     ``transfer`` -- including the exceptional exits of every suspension site
  K  re-plan pairing: every mutation of ``_subscriptions`` re-computes the scale; every
     store to ``_throughput_scale`` wakes all transfers in the same atomic block; the
     waits of ``transfer`` lie inside ``_congested.__subscription__()``
  A  the discretised fluid model, as algebraic normal forms: scale, window rate, planned
     delay, accounting, sum over all subscriptions; UnboundedPipe's delay
Completion times up to rounding are numeric and not decided.
"""
import ast

from ..engine import Analysis, is_call_to, is_suspension, short, where_fn, \
    call_receiver, invoked
from ..model import AnalysisError
from ..types import Callee
from ..norm import equal_algebra, symbols_of
from .. import rules

PROP = 'C13'
PIPE = 'usim._basics.pipe.Pipe'
UNBOUNDED = 'usim._basics.pipe.UnboundedPipe'
NOTIFICATION = 'usim._primitives.notification.Notification'


def _subscribes(path):
    """[(index, origin of the key)] of `self._subscriptions[key] = share`"""
    return [(i, rules.origin(path, i, e.node.slice)) for i, e in enumerate(path.events)
            if e.kind == 'store' and isinstance(e.node, ast.Subscript)
            and rules.value_text(path, i, e.node.value) == 'self._subscriptions']


def _unsubscribes(path):
    return [(i, rules.origin(path, i, e.node.slice)) for i, e in enumerate(path.events)
            if e.kind == 'del' and isinstance(e.node, ast.Subscript)
            and rules.value_text(path, i, e.node.value) == 'self._subscriptions']


def _first_arg(event):
    node = event.node
    if isinstance(node, ast.Call) and node.args:
        return ast.unparse(node.args[0])
    return None


def _expand(expr, fn, keep=()):
    """expand single-assignment locals except those reading the clock (``keep``)"""
    import copy

    class Sub(ast.NodeTransformer):
        def visit_Name(self, node):
            if not isinstance(node.ctx, ast.Load) or node.id in keep:
                return node
            values = rules.local_values(fn, node.id)
            if len(values) == 1 and values[0] is not None and \
                    not rules._is_param(fn, node.id):
                if rules.is_current_time(values[0], fn):
                    return node
                return self.visit(copy.deepcopy(values[0]))
            return node
    return Sub().visit(copy.deepcopy(expr))


def run(check, an: Analysis):
    check.rule('P', 'subscription pairing: _add_subscriber(id) ... _del_subscriber(id) on '
                    'every exit of transfer, same identifier')
    check.rule('K', 're-plan pairing: _subscriptions mutation -> _throttle_subscribers; '
                    '_throughput_scale store -> _congested.__awake_all__ (same atomic '
                    'block); waits inside _congested.__subscription__()')
    check.rule('A', 'fluid model formulas equal their closed forms as rational functions')
    an.cls(PIPE)
    transfer = an.callee(PIPE, 'transfer')
    fn = transfer.fn
    paths = an.paths(transfer)

    # ---- P ------------------------------------------------------------------
    exits = {}
    n_add, fresh = 0, True
    for path in paths:
        add = _subscribes(path)
        if not add:
            continue
        n_add += 1
        ident = add[0][1]
        fresh &= len(add) == 1 and ident[0] == 'object()' and ident[1] is not None
        dels = [d for d in _unsubscribes(path) if d[0] > add[0][0]]
        same = len(dels) == 1 and dels[0][1] == ident
        out = path.kind if path.kind != 'raise' else 'raise ' + \
            path.outcome[1].cls.rsplit('.', 1)[-1]
        exits.setdefault((out, same), path)
    check.instance('P', 'transfer:subscribes', n_add > 0, where_fn(fn),
                   'a transfer registers its share')
    for (out, ok), path in sorted(exits.items(), key=lambda kv: repr(kv[0])):
        check.instance('P', 'transfer:exit=%s' % out, ok, where_fn(fn),
                       'the share registered in the subscription table is removed exactly '
                       'once under the same identifier on this kind of exit',
                       path=rules.path_lines(path), analysed=len(paths))
    check.floor('P', 5, 'normal + 4 signal exits of Pipe.transfer')
    # the identifier is private to this transfer
    check.instance('P', 'transfer:fresh-identifier', fresh and n_add > 0, where_fn(fn),
                   'each transfer registers under a fresh `object()` key')

    # ---- K ------------------------------------------------------------------
    # every change of the subscription table re-plans within the same atomic block
    replan_ok, n_mut, bad = True, 0, None
    for method in sorted(an.p.functions.values(), key=lambda f: f.qn):
        if method.cls is None or method.cls.qn != PIPE or method.name == '__init__' or \
                isinstance(method.node, ast.Lambda):
            continue
        for path in an.paths(Callee(method, PIPE)):
            muts = [i for i, _k in _subscribes(path)] + [i for i, _k in _unsubscribes(path)]
            for index in muts:
                if path.events[index].fn is not method:
                    continue  # seen from the function that contains the statement
                n_mut += 1
                block = rules.atomic_block(path, index)
                later = [e for e in block if rules.event_index(path, e) > index]
                if not any(is_call_to(e, '_throttle_subscribers') and e.kind != 'leave'
                           for e in later):
                    replan_ok, bad = False, bad or (path, index)
    check.instance('K', 'subscriptions:replans', replan_ok and n_mut >= 2, where_fn(fn),
                   'every change of the subscription table is followed by '
                   '_throttle_subscribers() before anything else can run '
                   '(%d changes on paths)' % n_mut,
                   path=rules.path_lines(*bad) if bad else None, analysed=n_mut)
    for fn2, stmt, target, recvs in rules.attribute_stores(an, '_subscriptions', PIPE):
        ok = rules.owned_by(an, fn2, PIPE)
        check.instance('K', 'writer:_subscriptions:%s' % short(fn2.qn), ok,
                       '%s:%d' % (fn2.module.relpath, stmt.lineno),
                       'only the pipe itself writes the table', nontrivial=False)
    throttle = an.callee(PIPE, '_throttle_subscribers')
    n_scale = 0
    for path in an.paths(throttle):
        for index, event in enumerate(path.events):
            if event.kind == 'store' and event['path'] == 'self._throughput_scale':
                n_scale += 1
                block = rules.atomic_block(path, index)
                woke = any(is_call_to(e, '__awake_all__') and
                           rules.receiver_at(path, e) == 'self._congested' for e in block)
                check.instance('K', 'scale-store:wakes-all@%d' % event.line, woke,
                               event.where,
                               'a changed scale wakes every transfer to re-plan',
                               path=rules.path_lines(path, index))
    check.instance('K', 'scale-store:both-branches', n_scale >= 2, where_fn(throttle.fn),
                   'the scale is set on the congested and on the relaxed branch')
    replanners = rules.private_closure(an, PIPE, ['_throttle_subscribers'])
    for fn2, stmt, target, recvs in rules.attribute_stores(an, '_throughput_scale', PIPE):
        ok = fn2.name == '__init__' or fn2.name in replanners
        check.instance('K', 'writer:_throughput_scale:%s' % short(fn2.qn), ok,
                       '%s:%d' % (fn2.module.relpath, stmt.lineno),
                       'only _throttle_subscribers changes the scale', nontrivial=False)
    # waits inside the congestion subscription
    n_wait = 0
    for path in paths:
        depth_ctx = 0
        for index, event in enumerate(path.events):
            if event.kind in ('ctx-enter', 'with-enter') and event.depth == 0 and \
                    rules.value_text(path, index, event.node.items[0].context_expr) == \
                    'self._congested.__subscription__()':
                # (a generator context manager or a context manager object)
                depth_ctx += 1
            elif event.kind in ('ctx-exit', 'with-exit') and event.depth == 0 and \
                    rules.value_text(path, index, event.node.items[0].context_expr) == \
                    'self._congested.__subscription__()':
                depth_ctx -= 1
            elif event.kind == 'susp' and event.depth == 0 and is_suspension(event):
                n_wait += 1
                if depth_ctx <= 0:
                    check.instance('K', 'wait-outside-subscription@%d' % event.line, False,
                                   event.where, 'a transfer waits without listening for '
                                   'congestion changes', path=rules.path_lines(path, index))
    check.instance('K', 'waits-inside-subscription', n_wait > 0, where_fn(fn),
                   '%d wait events, all inside `with self._congested.__subscription__()`'
                   % n_wait, analysed=n_wait)

    # ---- A ------------------------------------------------------------------
    _check_formulas(check, an, transfer, throttle, paths)
    # a transfer whose scope is aborted is closed (and gives its share back) only if the
    # abort reaches every child: the closing loops walk copies (rule shared with C04)
    from . import c04
    c04.check_copy_iteration(check, an, 'P')
    # re-planned rates reach the running transfers through a notification: its wake-ups go
    # to the loop of the run that is current (no object keeps a loop; rule shared with C15)
    from . import c15
    c15.check_loop_never_kept(check, an, 'K')
    # the fluid model is integrated with the numbers as they are: no rounding, no tolerance
    from . import c01
    c01.check_exact_arithmetic(check, an, 'A', ('usim._basics.pipe', 'usim._core.loop',
                                                'usim._primitives.notification'))
    # the kernel rules every suspending operation rests on (shared; see _scope)
    from . import _scope as _kernel
    _kernel.check_kernel_core(check, an)
    from . import _scope as _sc
    _sc.check_scope_core(check, an, skip=('copies', 'only-exit', 'task-close', 'foreign'))
    check.stats.update(an.stats())


def check_scale(check, an: Analysis, rule: str, throttle=None, scale='self._throughput_scale'):
    """the slow-down factor: 1 unless demand strictly exceeds the throughput (a pipe that
    is exactly saturated is not throttled, and nobody is woken to re-plan for nothing)"""
    if throttle is None:
        throttle = an.callee(PIPE, '_throttle_subscribers')
    # scale formula
    from .c19 import inequality
    overload = inequality(ast.parse('sum(self._subscriptions.values()) > self.throughput',
                                    mode='eval').body)
    kinds = {}
    for path in an.paths(throttle):
        for index, event in enumerate(path.events):
            if event.kind == 'store' and event['path'] == scale:
                value = rules.value_expr(path, index, event['value'])
                guards = [e for i, e in enumerate(path.events[:index]) if e.kind == 'test'
                          and inequality(rules.value_expr(path, i, e.node)) == overload]
                congested = bool(guards) and guards[-1]['value'] is True
                relaxed = bool(guards) and guards[-1]['value'] is False
                if isinstance(value, ast.Constant):
                    ok = float(value.value) == 1.0 and relaxed
                    kinds['uncongested=1'] = kinds.get('uncongested=1', True) and ok
                else:
                    ok = equal_algebra(
                        value, 'self.throughput / sum(self._subscriptions.values())') \
                        and congested
                    kinds['congested=throughput/sum'] = kinds.get(
                        'congested=throughput/sum', True) and ok
    # ... and it *returns* to 1: every way through that finds the demand within the
    # throughput leaves with a scale of 1 -- stored, or found to be 1 already (a pipe that
    # stays throttled after the congestion has ended slows everyone down for nothing)
    def _is_one(path, index, event):
        node = rules.value_expr(path, index, event.node)
        if not (isinstance(node, ast.Compare) and len(node.ops) == 1):
            return None
        sides = [ast.unparse(node.left), ast.unparse(node.comparators[0])]
        other = [x for x in (node.left, node.comparators[0]) if ast.unparse(x) != scale]
        if scale not in sides or len(other) != 1 or not (
                isinstance(other[0], ast.Constant) and isinstance(
                    other[0].value, (int, float)) and float(other[0].value) == 1.0):
            return None
        if isinstance(node.ops[0], ast.NotEq):
            return event['value'] is False
        if isinstance(node.ops[0], ast.Eq):
            return event['value'] is True
        return None
    n_relaxed, stuck = 0, None
    for path in an.paths(throttle):
        if not path.normal:
            continue
        guards = [(i, e) for i, e in enumerate(path.events) if e.kind == 'test'
                  and inequality(rules.value_expr(path, i, e.node)) == overload]
        if not guards or guards[-1][1]['value'] is not False:
            continue
        n_relaxed += 1
        stores = [(i, e) for i, e in enumerate(path.events) if e.kind == 'store'
                  and e['path'] == scale]
        if stores:
            value = rules.value_expr(path, stores[-1][0], stores[-1][1]['value'])
            good = isinstance(value, ast.Constant) and isinstance(
                value.value, (int, float)) and float(value.value) == 1.0
        else:
            good = any(_is_one(path, i, e) is True for i, e in enumerate(path.events)
                       if e.kind == 'test')
        if not good:
            stuck = stuck or (path, guards[-1][0])
    check.instance(rule, 'scale:returns-to-1', stuck is None and n_relaxed > 0,
                   where_fn(throttle.fn), 'every way through that finds demand <= throughput '
                   'leaves the scale at 1 (%d such paths)' % n_relaxed,
                   path=rules.path_lines(*stuck) if stuck else None, analysed=n_relaxed)
    for name in ('uncongested=1', 'congested=throughput/sum'):
        check.instance(rule, 'scale:%s' % name, kinds.get(name) is True,
                       where_fn(throttle.fn),
                       'scale is 1 when demand <= throughput, throughput / sum(all limits) '
                       'under `sum > throughput`: %s' % kinds)


def _accumulator(fn):
    """the local that accumulates the transferred volume (`acc += ...` inside the loop)"""
    loops = [n for n in ast.walk(fn.node) if isinstance(n, ast.While)]
    augs = [n.target.id for loop in loops for n in ast.walk(loop)
            if isinstance(n, ast.AugAssign) and isinstance(n.op, ast.Add)
            and isinstance(n.target, ast.Name)]
    # `acc = acc + x` is the same accumulation for a number
    augs += [n.targets[0].id for loop in loops for n in ast.walk(loop)
             if isinstance(n, ast.Assign) and len(n.targets) == 1
             and isinstance(n.targets[0], ast.Name) and isinstance(n.value, ast.BinOp)
             and isinstance(n.value.op, ast.Add) and isinstance(n.value.left, ast.Name)
             and n.value.left.id == n.targets[0].id]
    return augs[0] if len(augs) == 1 else None


def _clock_symbols(expr, path, index, fn):
    """replace direct clock reads by NOW, return (expr, clock local names)"""
    import copy

    class Sub(ast.NodeTransformer):
        def visit_Attribute(self, node):
            if isinstance(node.ctx, ast.Load) and rules.is_current_time(node, fn):
                return ast.Name(id='NOW_', ctx=ast.Load())
            return self.generic_visit(node)

        def visit_Call(self, node):
            # the clock read through its getter (`time._now()`)
            if rules.is_clock_call(node, fn):
                return ast.Name(id='NOW_', ctx=ast.Load())
            return self.generic_visit(node)
    tree = Sub().visit(copy.deepcopy(expr))
    names = set()
    for node in ast.walk(tree):
        if isinstance(node, ast.Name):
            if node.id == 'NOW_':
                names.add('NOW_')
            else:
                found = rules.reaching_store(path, index, node.id)
                if found is not None and found[1].get('value') is not None:
                    held = rules.value_expr(path, found[0], found[1]['value'],
                                            keep_clock=False)
                    if rules.is_current_time(found[1]['value'], found[1].fn) or \
                            rules.is_clock_call(held, found[1].fn) or (
                                isinstance(held, ast.Attribute)
                                and rules.is_current_time(held, found[1].fn)):
                        names.add(node.id)
    return tree, names


def _check_formulas(check, an: Analysis, transfer, throttle, paths):
    fn = transfer.fn
    params = [a.arg for a in fn.node.args.args]
    total = params[1]
    acc = _accumulator(fn)
    scale = 'self._throughput_scale'
    if acc is None:
        check.instance('A', 'transfer:accounting', False, where_fn(fn),
                       'no accumulating `x += elapsed * rate` statement in the window loop')
        return
    verdict_delay, n_delay, bad_delay = True, 0, None
    share_ok, n_share = True, 0
    verdict_acc, n_acc, bad_acc = True, 0, None
    verdict_order, bad_order = True, None
    for path in paths:
        add = [(i, e) for i, e in enumerate(path.events) if e.kind == 'store'
               and isinstance(e.node, ast.Subscript) and e['value'] is not None
               and rules.value_text(path, i, e.node.value) == 'self._subscriptions']
        if not add:
            continue
        limit = rules.value_text(path, add[0][0], add[0][1]['value'], keep=(acc,))
        asked = rules.path_atoms(path, 0, add[0][0]).get(('isnone', params[2])) \
            if len(params) > 2 else None
        n_share += 1
        if not ((asked is False and limit == params[2]) or
                (asked is True and limit == 'self.throughput') or
                (asked is None and limit == '%s if %s is not None else self.throughput' % (
                    params[2], params[2]))):
            share_ok = False
        for index, event in enumerate(path.events):
            if event.kind == 'call' and is_call_to(event, 'suspend') and event.depth == 0:
                kw = [k.value for k in event.node.keywords if k.arg == 'delay']
                n_delay += 1
                got = rules.value_text(path, index, kw[0], keep=(acc,)) if kw else None
                want = '(%s - %s) / ((%s) * %s)' % (total, acc, limit, scale)
                if got is None or not equal_algebra(got, want):
                    verdict_delay = False
                    bad_delay = bad_delay or (path, index, got)
            elif event.kind == 'store' and event['path'] == acc and \
                    event['aug'] is not None and event.depth == 0:
                n_acc += 1
                expanded = rules.value_expr(path, index, event['value'], keep=(acc,))
                tree, clocks = _clock_symbols(expanded, path, index, fn)
                good = False
                pair = None
                for end in sorted(clocks):
                    for start in sorted(clocks):
                        if end != start and equal_algebra(
                                ast.unparse(tree), '(%s - %s) * (%s) * %s' % (
                                    end, start, limit, scale)):
                            good, pair = True, (start, end)
                if not good:
                    verdict_acc = False
                    bad_acc = bad_acc or (path, index, ast.unparse(tree))
                    continue
                # window order: start time and rate captured before the wait, end after
                waits = [i for i in range(index - 1, -1, -1)
                         if path.events[i].kind == 'susp' and path.events[i].depth == 0
                         and is_suspension(path.events[i])]
                prev_acc = [i for i in range(index - 1, -1, -1)
                            if path.events[i].kind == 'store'
                            and path.events[i]['path'] == acc
                            and path.events[i]['aug'] is not None]
                lo = prev_acc[0] if prev_acc else -1
                waits = [w for w in waits if w > lo]
                if not waits:
                    verdict_order = False
                    bad_order = bad_order or (path, index)
                    continue
                wait = waits[-1]  # first wait of this window
                start, end = pair
                s_pos = rules.reaching_store(path, index, start)
                e_pos = index if end == 'NOW_' else rules.reaching_store(path, index, end)[0]
                # wherever the scale is read on the way to this amount (a store, or the
                # result of a helper run in place): between the previous accounting and
                # the wait
                rate_ok = scale not in ast.unparse(event['value'])
                reads = []
                rules.value_expr(path, index, event['value'], keep=(acc,), trace=reads)
                for pos in reads:
                    seen = path.events[pos]
                    raw = seen.data.get('value') if seen.kind == 'store' \
                        else seen.data.get('ret')
                    if raw is not None and scale in ast.unparse(raw):
                        rate_ok &= lo < pos < wait
                ok = s_pos is not None and lo < s_pos[0] < wait and e_pos > waits[0] \
                    and rate_ok
                if not ok:
                    verdict_order = False
                    bad_order = bad_order or (path, index)
    check.instance('A', 'transfer:share=limit', share_ok and n_share > 0, where_fn(fn),
                   'the share registered for a transfer is the limit it asked for, the '
                   'pipe\'s throughput without one -- unclamped, so that rates stay '
                   'proportional to the limits (%d registrations on paths)' % n_share)
    check.instance('A', 'transfer:planned-delay', verdict_delay and n_delay > 0, where_fn(fn),
                   'delay == (total - transferred) / (limit * scale) at every suspend '
                   '(%d sites on paths)%s' % (n_delay, '' if verdict_delay else
                                              ': found ' + str(bad_delay[2])),
                   path=rules.path_lines(*bad_delay[:2]) if bad_delay else None,
                   analysed=n_delay)
    check.instance('A', 'transfer:accounting', verdict_acc and n_acc > 0, where_fn(fn),
                   'transferred += (end - start) * limit * scale (%d windows on paths)%s' % (
                       n_acc, '' if verdict_acc else ': found ' + str(bad_acc[2])),
                   path=rules.path_lines(*bad_acc[:2]) if bad_acc else None, analysed=n_acc)
    check.instance('A', 'transfer:window-order', verdict_order and n_acc > 0, where_fn(fn),
                   'per window: start time and rate are read before the wait, end time '
                   'after it', path=rules.path_lines(*bad_order) if bad_order else None,
                   analysed=n_acc)
    check_scale(check, an, 'A', throttle, scale)
    # every pipe has a subscription table of its own, made by its constructor
    made = set()
    for path in an.paths(an.callee(PIPE, '__init__')):
        if not path.normal:
            continue
        stores = [(i, e) for i, e in enumerate(path.events) if e.kind == 'store'
                  and e.get('path') == 'self._subscriptions' and e.depth == 0]
        made.add(rules.value_text(path, stores[-1][0], stores[-1][1]['value'])
                 if stores and stores[-1][1].data.get('value') is not None else '<none>')
    check.instance('A', 'Pipe:own-subscription-table', bool(made) and made <= {'{}', 'dict()'},
                   where_fn(an.method(PIPE, '__init__')),
                   'the constructor gives each pipe a fresh table of shares: %s' % sorted(made))
    # a transfer is over exactly when the whole volume was accounted for
    done_ok, n_done, bad_done = True, 0, None
    exact = rules.asserted(ast.parse('%s < %s' % (acc, total), mode='eval').body, False)
    for path in paths:
        if not path.normal:
            continue
        accounted = [i for i, e in enumerate(path.events) if e.kind == 'store'
                     and e['path'] == acc and e['aug'] is not None and e.depth == 0]
        if not accounted:
            continue
        n_done += 1
        facts = [f for _p, f, _a in rules.path_inequalities(path, accounted[-1],
                                                            len(path.events))]
        if exact not in facts:
            done_ok, bad_done = False, bad_done or path
    check.instance('A', 'transfer:ends-when-volume-reached', done_ok and n_done > 0,
                   where_fn(fn), 'after its last accounting a finished transfer has tested '
                   '`not %s < %s` -- no tolerance that ends it early (%d paths)' % (
                       acc, total, n_done),
                   path=rules.path_lines(bad_done) if bad_done else None, analysed=n_done)
    # UnboundedPipe
    an.cls(UNBOUNDED)
    utransfer = an.callee(UNBOUNDED, 'transfer')
    ufn = utransfer.fn
    uparams = [a.arg for a in ufn.node.args.args]
    upaths = an.paths(utransfer)
    verdict, waits = True, 0
    for path in upaths:
        if rules.contradicts_constants(path):
            continue
        for index, event in enumerate(path.events):
            if event.kind == 'call' and is_call_to(event, 'suspend') and event.depth == 0:
                waits += 1
                kw = [k.value for k in event.node.keywords if k.arg == 'delay']
                got = rules.value_text(path, index, kw[0]) if kw else None
                verdict &= got is not None and equal_algebra(
                    got, '%s / %s' % (uparams[1], uparams[2]))
                limited = rules.fact_value(event, ('isnone', uparams[2]))
                atoms = rules.path_atoms(path, 0, index)
                if atoms.get(('infeasible', '')):
                    continue
                if limited is None:
                    limited = atoms.get(('isnone', uparams[2]))
                if limited is not False:
                    check.instance('A', 'unbounded:unlimited-no-wait', False, event.where,
                                   'an unlimited transfer must not wait')
    check.instance('A', 'unbounded:delay=total/limit', verdict and waits > 0, where_fn(ufn),
                   'limited transfers through an unbounded pipe wait total / limit '
                   '(%d sites on paths)' % waits, analysed=len(upaths))


def _is_overload_test(event, fn) -> bool:
    """``sum(self._subscriptions.values()) > self.throughput`` in any orientation"""
    node = event.node
    if not (isinstance(node, ast.Compare) and len(node.ops) == 1):
        return False
    left = ast.unparse(_expand(node.left, fn))
    right = ast.unparse(_expand(node.comparators[0], fn))
    demand = 'sum(self._subscriptions.values())'
    supply = 'self.throughput'
    op = node.ops[0]
    if left == demand and right == supply and isinstance(op, ast.Gt):
        return True
    if left == supply and right == demand and isinstance(op, ast.Lt):
        return True
    return False
