"""
C06 -- task lifecycle: forward-only status, stable result, precise cancellation.

Structural clauses decided (DESIGN.md section 5/C06):
  X    ``Task._result`` is written only by the wrapper, ``__close__``, ``cancel``
       (and ``__init__``); in ``cancel``/``__close__`` under ``_result is None``
  once every terminal path of the wrapper sets done exactly once, after the result is
       stored, with no suspension in between and no result store afterwards; the
       pre-run exit (result already set) sets nothing
  A    ``Task.__await__`` awaits done, then returns/raises from the stored result
  K    cancel: not-started -> result + done without scheduling; else a CancelTask with
       (task, *token) is registered *before* it is scheduled undated onto the runner;
       ``__transcript__`` carries subject and token into TaskCancelled
  I    isolation: only the generic failure path reports ``failed=True`` to the parent
  typestate: the not-started predicate is sound on this interpreter
"""
import ast

from ..engine import Analysis, is_call_to, is_suspension, short, where_fn, tested, key_truth
from ..model import AnalysisError
from ..paths import SIGNALS, GENEXIT, CANCEL_TASK
from .. import rules
from . import _scope

PROP = 'C06'
TASK = _scope.TASK


def _result_stores(path, depth0=True):
    return [i for i, e in enumerate(path.events)
            if e.kind == 'store' and e['path'] == 'self._result']


def run(check, an: Analysis):
    check.rule('X', 'writers of Task._result; writes in cancel/__close__ dominated by '
                    '`_result is None`')
    check.rule('once', 'wrapper: result stored at most once, then `__set_done__` exactly '
                       'once, atomically; pre-run exit touches nothing')
    check.rule('A', 'Task.__await__ waits for done, then returns/raises the stored result')
    check.rule('K', 'cancel precision: created -> immediate TaskCancelled(self, *token); '
                    'running -> CancelTask(self, *token) registered, then scheduled undated')
    check.rule('I', 'only a genuine failure reports failed=True to the parent scope')
    check.rule('typestate', 'the not-started predicate is sound on this interpreter')
    an.cls(TASK)
    wrapper = _scope.wrapper_callee(an)
    wfn = wrapper.fn

    # ---- X ------------------------------------------------------------------
    # the entry points that may decide a task's outcome, and the private stages split off
    # them (methods called from nowhere else)
    allowed = rules.private_closure(an, TASK, {'__init__', '__close__', 'cancel'}) \
        | {wfn.name}
    for fn, stmt, target, recvs in rules.attribute_stores(an, '_result', TASK):
        ok = (rules.owned_by(an, fn, TASK) and fn.name in allowed) or fn is wfn
        check.instance('X', 'writer:%s' % short(fn.qn), ok,
                       '%s:%d' % (fn.module.relpath, stmt.lineno),
                       'Task._result written by %s' % short(fn.qn), nontrivial=False)
    check.floor('X', 6)
    for name in ('cancel', '__close__'):
        callee = an.callee(TASK, name)
        n = 0
        for path in an.paths(callee):
            for index in _result_stores(path):
                n += 1
                event = path.events[index]
                unset = rules.fact_value(event, ('isnone', 'self._result'))
                check.instance('X', '%s:write-only-if-unset' % name, unset is True,
                               event.where, 'the result is written only while it is still '
                               'None (fact=%s)' % unset, path=rules.path_lines(path, index))
        check.instance('X', '%s:writes-result' % name, n > 0, where_fn(callee.fn),
                       '%s records an outcome' % name)
    # ---- once ---------------------------------------------------------------
    paths = an.paths(wrapper)
    kinds = {}
    for path in paths:
        if not path.normal:
            kinds.setdefault(('escapes', False), path)
            continue
        stores = _result_stores(path)
        dones = [i for i, e in enumerate(path.events) if is_call_to(e, '__set_done__')]
        prerun = any(tested(e, ('isnone', 'self._result'), False)
                     for e in path.events[:3])
        awaited = any(e.kind == 'susp' and e.get('user') for e in path.events)
        if prerun:
            ok = not stores and not dones and not awaited
            kinds.setdefault(('pre-run-exit', ok), path)
            continue
        susp_between = False
        if stores and dones:
            susp_between = any(is_suspension(e)
                               for e in path.events[stores[-1]:dones[0]])
        ok = len(dones) == 1 and len(stores) <= 1 and not susp_between and \
            (not stores or stores[0] < dones[0])
        cause = _terminal_cause(path)
        kinds.setdefault((cause, ok), path)
    for (cause, ok), path in sorted(kinds.items(), key=lambda kv: repr(kv[0])):
        check.instance('once', 'wrapper:%s' % cause, ok, where_fn(wfn),
                       'result stored <= once, done set exactly once afterwards, atomically'
                       if cause not in ('pre-run-exit', 'escapes') else
                       ('a task finished before its first turn only closes its payload'
                        if cause == 'pre-run-exit' else
                        'nothing escapes the task wrapper'),
                       path=rules.path_lines(path), analysed=len(paths))
    check.floor('once', 5)
    # the payload is awaited only if no result exists yet
    for path in paths:
        for index, event in enumerate(path.events):
            if event.kind == 'susp' and event.get('user'):
                unset = rules.fact_value(event, ('isnone', 'self._result'))
                # facts on attributes die at the optional start delay; the test is the
                # first statement, so accept the test event itself
                was_unset = any(tested(e, ('isnone', 'self._result'), True)
                                for e in path.events[:index])
                check.instance('once', 'wrapper:payload-only-if-unset',
                               bool(unset) or was_unset,
                               event.where, 'the payload runs only if the task was not '
                               'finished before its first turn',
                               path=rules.path_lines(path, index))
                break
    # the payload may be any awaitable: it is closed "if it can be closed" (helper or guarded
    # lookup), never by an unguarded `.close()` that fails for an awaitable without one
    from .c04 import _closes
    unguarded = None
    for path in paths:
        for index, event in enumerate(path.events):
            if event.kind == 'call' and isinstance(event.node, ast.Call) and \
                    rules.value_text(path, index, event.node.func) == 'self.payload.close' \
                    and not _closes(path, 'self.payload'):
                unguarded = unguarded or (path, index)
    check.instance('once', 'wrapper:payload-closed-if-closable', unguarded is None,
                   where_fn(wfn), 'the wrapper never calls `.close()` on a payload without '
                   'tolerating that it has none',
                   path=rules.path_lines(*unguarded) if unguarded else None)
    # ... and by nothing else: a payload that is itself a task (`scope.do(other_task)`) or a
    # condition is awaited, never told to end -- the task that wraps it is cancelled, not
    # the activity it waits for (rule shared with C04)
    from .c04 import check_payload_opaque
    check_payload_opaque(check, an, 'once')
    # Done.__set_done__ raises the flag and triggers in one block
    setdone = an.callee(_scope.DONE, '__set_done__')
    for path in an.paths(setdone):
        if path.normal:
            stores = [i for i, e in enumerate(path.events)
                      if e.kind == 'store' and e['path'] == 'self._value']
            trig = [i for i, e in enumerate(path.events) if is_call_to(e, '__trigger__')]
            ok = len(stores) == 1 and len(trig) == 1 and stores[0] < trig[0] and \
                isinstance(path.events[stores[0]]['value'], ast.Constant) and \
                path.events[stores[0]]['value'].value is True
            check.instance('once', 'Done.__set_done__', ok, where_fn(setdone.fn),
                           'stores True, then triggers the waiters',
                           path=rules.path_lines(path))
    # ---- A ------------------------------------------------------------------
    aw = an.callee(TASK, '__await__')
    for path in an.paths(aw):
        waited = [i for i, e in enumerate(path.events)
                  if e.kind == 'susp' and is_call_to(e, '__await__', _scope.CONDITION)
                  and e['exit'] == 'normal']
        if path.kind == 'return':
            value = path.outcome[1]
            ok = bool(waited) and value is not None and rules.value_text(
                path, len(path.events) - 1, value) == 'self._result[0]'
            check.instance('A', 'await:returns-stored-result', ok, where_fn(aw.fn),
                           'after done, the first element of `_result` is returned',
                           path=rules.path_lines(path))
        elif path.kind == 'raise' and path.outcome[1].cls not in SIGNALS:
            event = [e for e in path.events if e.kind == 'raise'][-1]
            position = rules.event_index(path, event)
            raised = event.node.exc
            none_tests = [e for i, e in enumerate(path.events[:position])
                      if e.kind == 'test' and e.get('key') and e['key'][0] == 'isnone'
                      and rules.value_text(path, i, ast.parse(e['key'][1], mode='eval').body)
                      == 'self._result[1]']
            ok = bool(waited) and raised is not None and rules.value_text(
                path, position, raised) == 'self._result[1]' and bool(none_tests) and \
                key_truth(none_tests[-1]) is False
            check.instance('A', 'await:raises-stored-error', ok, event.where,
                           'after done, the stored exception is raised iff it is not None',
                           path=rules.path_lines(path))
    kinds_a = {i.construct for i in check.instances if i.rule == 'A'}
    check.instance('A', 'await:both-outcomes',
                   {'await:returns-stored-result', 'await:raises-stored-error'} <= kinds_a,
                   where_fn(aw.fn), 'awaiting a task both returns results and raises '
                   'failures (%s)' % sorted(kinds_a))
    # ---- K ------------------------------------------------------------------
    cancel = an.callee(TASK, 'cancel')
    seen = set()
    for path in an.paths(cancel):
        if not path.normal:
            continue
        stores = _result_stores(path)
        sched = [i for i, e in enumerate(path.events) if is_call_to(e, 'schedule')
                 and e.depth == 0]
        dones = [i for i, e in enumerate(path.events) if is_call_to(e, '__set_done__')]
        unset = [e for e in path.events if e.kind == 'test'
                 and e.get('key') == ('isnone', 'self._result')]
        if unset and key_truth(unset[0]) is False:
            ok = not stores and not sched and not dones
            seen.add('finished')
            check.instance('K', 'cancel:finished-task-ignored', ok, where_fn(cancel.fn),
                           'cancelling a finished task does nothing',
                           path=rules.path_lines(path))
        elif stores:
            value = rules.value_expr(path, stores[0], path.events[stores[0]]['value'])
            ok = not sched and len(dones) == 1 and _is_result_tuple(
                value, None, 'TaskCancelled', ['self', '*token'])
            seen.add('created')
            check.instance('K', 'cancel:created->immediate', ok, path.events[stores[0]].where,
                           'an unstarted task gets (None, TaskCancelled(self, *token)) and '
                           'done, nothing is scheduled', path=rules.path_lines(path))
        elif sched:
            call = path.events[sched[0]].node
            made = [e for e in path.events[:sched[0]] if e.kind == 'call'
                    and isinstance(e.node, ast.Call)
                    and rules.text_at(path, e, e.node.func) == 'CancelTask']
            appended = [i for i, e in enumerate(path.events[:sched[0]])
                        if e.kind == 'call' and isinstance(e.node, ast.Call)
                        and isinstance(e.node.func, ast.Attribute)
                        and rules.text_at(path, e, e.node.func) == 'self._cancellations.append']
            undated = not any(kw.arg in ('delay', 'at') for kw in call.keywords)
            target_ok = bool(call.args) and rules.value_text(
                path, sched[0], call.args[0]) == 'self.__runner__'
            sig = [kw.value for kw in call.keywords if kw.arg == 'signal'] or call.args[1:2]
            sig_ok = bool(sig) and bool(made) and rules.is_source_node(
                rules.value_expr(path, sched[0], sig[0]), made[0].node)
            args_ok = bool(made) and [
                rules.text_at(path, made[0], a) for a in made[0].node.args] == \
                ['self', '*%s' % cancel.fn.node.args.vararg.arg
                 if cancel.fn.node.args.vararg else '?']
            ok = bool(appended) and undated and target_ok and sig_ok and args_ok
            seen.add('running')
            check.instance('K', 'cancel:running->scheduled', ok, path.events[sched[0]].where,
                           'CancelTask(self, *token) registered in _cancellations, then '
                           'scheduled undated on the runner (registered=%s undated=%s '
                           'target=%s signal=%s args=%s)' % (
                               bool(appended), undated, target_ok, sig_ok, args_ok),
                           path=rules.path_lines(path))
    for path in an.paths(cancel):
        if not path.normal:
            continue
        unset = [e for e in path.events if e.kind == 'test'
                 and e.get('key') == ('isnone', 'self._result')]
        acted = _result_stores(path) or any(is_call_to(e, 'schedule') and e.depth == 0
                                            for e in path.events)
        if unset and key_truth(unset[0]) is True and not acted:
            check.instance('K', 'cancel:live-task-always-cancelled', False,
                           where_fn(cancel.fn), 'a cancel() of an unfinished task takes a '
                           'path that neither finishes the task nor schedules a CancelTask',
                           path=rules.path_lines(path))
    check.instance('K', 'cancel:three-cases', seen == {'finished', 'created', 'running'},
                   where_fn(cancel.fn), 'cancel distinguishes %s' % sorted(seen))
    # created branch is selected by the CREATED state
    tests = [n for n in ast.walk(cancel.fn.node) if isinstance(n, ast.If)]
    state_test = any(
        ('status' in ast.unparse(t.test) and 'CREATED' in ast.unparse(t.test))
        or any(isinstance(c, ast.Compare) and _scope.classify_started_test(c)
               for c in ast.walk(t.test)) for t in tests)
    check.instance('K', 'cancel:created-test', state_test, where_fn(cancel.fn),
                   'the immediate branch is guarded by the CREATED state of the task')
    transcript = an.method(_scope.CANCEL_TASK, '__transcript__')
    calls = [n for n in ast.walk(transcript.node) if isinstance(n, ast.Call)
             and ast.unparse(n.func) == 'TaskCancelled']
    ok = len(calls) == 1 and [ast.unparse(a) for a in calls[0].args] == \
        ['self.subject', '*self.token']
    check.instance('K', 'CancelTask.__transcript__', ok, where_fn(transcript),
                   'TaskCancelled(self.subject, *self.token)')
    # the wrapper turns CancelTask into its transcript
    for path in paths:
        for index, event in enumerate(path.events):
            if event.kind == 'handler' and event['exc'] == CANCEL_TASK:
                stores = [e for e in path.events[index:] if e.kind == 'store'
                          and e['path'] == 'self._result']
                stored = rules.value_expr(path, rules.event_index(path, stores[0]),
                                          stores[0]['value']) \
                    if stores and stores[0]['value'] is not None else None
                ok = stored is not None and '__transcript__' in ast.unparse(stored) and \
                    _is_result_tuple(stored, None, None, None)
                check.instance('K', 'wrapper:CancelTask->transcript', ok, event.where,
                               'a cancelled payload stores (None, err.__transcript__)',
                               path=rules.path_lines(path, index))
                break
    # ---- I ------------------------------------------------------------------
    check_failed_flag(check, an, 'I', paths, wfn)
    # a signal meant for the payload never counts as the payload's own failure: the
    # specific handlers precede the generic one (exercised by the paths above per class)
    for cls, want in ((CANCEL_TASK, 'cancelled'), (GENEXIT, 'closed')):
        hit = False
        for path in paths:
            for index, event in enumerate(path.events):
                if event.kind == 'susp' and event.depth == 0 and event['exit'] == cls:
                    hit = True
                    cause = _terminal_cause(path)
                    if cause != want:
                        check.instance('I', 'wrapper:%s-classified-as-%s' % (
                            cls.rsplit('.', 1)[-1], want), False, event.where,
                            'classified as %s' % cause, path=rules.path_lines(path, index))
        check.instance('I', 'wrapper:%s-reaches-own-handler' % cls.rsplit('.', 1)[-1].replace(
            'ext:', ''), hit, where_fn(wfn), 'handled by its specific handler')
    # every awaiter receives the exception the payload raised, the object itself
    _scope.check_failure_is_kept_as_raised(check, an, 'I')
    # a cancellation that loses the race against the end of the task is disarmed
    from . import c03
    c03._check_signal_lifecycles(check, an, wrapper, rule='K',
                                 only=lambda fn, cls: cls == CANCEL_TASK)
    # a cancellation delivered at a suspension point unwinds what the task was subscribed
    # to: every notification lets go of the pair it was given (a delivery left armed would
    # later hit the finished task and end the whole run, siblings and parent included)
    from ..report import SubCheck
    c03._check_subscribe_protocol(SubCheck(check, 'K', 'Notification'), an)
    # a child cancelled before its first turn is done at once but deregisters only in its
    # first turn: the scope that waits for it must give it that turn
    _scope.check_await_children_progress(check, an, 'K')
    # a cancellation thrown into a task that owns a scope leaves that scope as itself
    from . import c05, c04
    c05.check_own_exception_wins(check, an, 'K', [CANCEL_TASK])
    # ... also when the cancellation arrives while the task waits at the end of a block
    _scope.check_foreign_signal_leaves_exit(check, an, 'K')
    # closing marks a task done whether it has started or not (awaiters resume)
    c04.check_task_close(check, an, 'X')
    # ---- typestate ----------------------------------------------------------
    _scope.check_typestate(check, an)
    from . import _scope as _sc
    _sc.check_scope_core(check, an, skip=('foreign', 'task-close'))
    from . import c03 as _c03
    _c03.check_handlers(check, an, 'K')
    from . import _scope as _kernel
    _kernel.check_kernel_core(check, an)
    check.stats.update(an.stats())


def check_failed_flag(check, an: Analysis, rule: str, paths=None, wfn=None):
    """how the task wrapper reports each kind of end to the parent scope: failed=True only
    for a genuine failure of the payload"""
    if paths is None:
        wrapper = _scope.wrapper_callee(an)
        paths, wfn = an.paths(wrapper), wrapper.fn
    flags = {}
    for path in paths:
        if not path.normal:
            continue
        cause = _terminal_cause(path)
        calls = [e for e in path.events if is_call_to(e, '__child_finished__')]
        values = [_scope.child_finished_flag(e, path) for e in calls]
        flags.setdefault(cause, set()).add(tuple(values))
    expected = {'success': (False,), 'cancelled': (False,), 'closed': (False,),
                'failed': (True,), 'pre-run-exit': (False,)}
    for cause, values in sorted(flags.items()):
        want = expected.get(cause)
        ok = want is not None and values == {want}
        check.instance(rule, 'wrapper:%s->failed=%s' % (cause, want[0] if want else '?'), ok,
                       where_fn(wfn), 'parent is told failed=%s exactly once on this kind '
                       'of end (seen %s)' % (want[0] if want else '?', sorted(values)))
    check.instance(rule, 'wrapper:all-ends', set(expected) <= set(flags), where_fn(wfn),
                   'the wrapper distinguishes %s' % sorted(flags))


def _terminal_cause(path) -> str:
    """how the payload ended on this wrapper path"""
    if any(tested(e, ('isnone', 'self._result'), False) for e in path.events[:3]):
        return 'pre-run-exit'
    for index, event in enumerate(path.events):
        if event.kind == 'handler' and event.depth == 0:
            # only what ends the payload: an exception out of an awaited activity, not
            # e.g. a failed attribute lookup during the clean-up
            source = path.events[index - 1] if index else None
            if source is None or source.kind != 'susp':
                continue
            types = event['types']
            if any(t.endswith('CancelTask') for t in types):
                return 'cancelled'
            if types == ['ext:GeneratorExit']:
                return 'closed'
            return 'failed'
    return 'success'


def _unpacked_from_result(fn):
    """names (value, error) of ``value, error = self._result``"""
    for node in ast.walk(fn.node):
        if isinstance(node, ast.Assign) and ast.unparse(node.value) == 'self._result' and \
                isinstance(node.targets[0], ast.Tuple) and len(node.targets[0].elts) == 2 \
                and all(isinstance(e, ast.Name) for e in node.targets[0].elts):
            return tuple(e.id for e in node.targets[0].elts)
    return None


def _is_result_tuple(value, first, second_ctor, second_args) -> bool:
    """``(<first>, <second_ctor>(<args>))`` -- None components are wildcards"""
    if not (isinstance(value, ast.Tuple) and len(value.elts) == 2):
        return False
    a, b = value.elts
    if first is None and not (isinstance(a, ast.Constant) and a.value is None):
        return False
    if second_ctor is not None:
        if not (isinstance(b, ast.Call) and ast.unparse(b.func) == second_ctor):
            return False
        if second_args is not None and [ast.unparse(x) for x in b.args] != second_args:
            return False
    return True
