"""
Self-test of the checker (DESIGN.md section 8): firing variants and silent twins.

Each variant is a one-spot source edit applied **in memory** (overlay) to the current
/repo sources; the edited module must still compile.  A *mutant* must make the named
property check report a violation whose rule/construct contains ``expect``; a *twin* is a
behaviour-preserving rewrite and must stay silent.  If the edit's anchor text is not
present exactly once (the repository has drifted), the variant is skipped, never failed.
"""
import concurrent.futures
import io
import os
import sys
import contextlib

from .model import read_sources, AnalysisError
from .variants import VARIANTS


def apply_variant(sources: dict, variant: dict):
    if 'patch' in variant:
        from .corpus import apply_patch, PatchError
        try:
            with open(variant['patch'], encoding='utf-8') as stream:
                overlay = apply_patch(sources, stream.read())
        except (PatchError, OSError):
            return None
        for rel, text in overlay.items():
            try:
                compile(text, rel, 'exec')
            except SyntaxError:
                return None
        return overlay or None
    rel = variant['file']
    text = sources.get(rel)
    if text is None:
        return None
    old, new = variant['old'], variant['new']
    if text.count(old) != 1:
        return None
    edited = text.replace(old, new)
    try:
        compile(edited, rel, 'exec')
    except SyntaxError as err:
        raise AnalysisError('variant %s does not compile: %s' % (variant['id'], err))
    return {rel: edited}


def run_variant(variant: dict, root: str = None) -> dict:
    from .report import Check
    from .engine import Analysis
    import importlib
    sources = read_sources(root)
    overlay = apply_variant(sources, variant)
    result = {'id': variant['id'], 'property': variant['property'],
              'kind': variant.get('kind', 'mutant'), 'what': variant.get('what', '')}
    if overlay is None:
        result['status'] = 'skipped'
        return result
    check = Check(variant['property'], 'selftest', 0, quiet=True)
    try:
        module = importlib.import_module('usimlint.props.%s' % variant['property'].lower())
        analysis = Analysis(root=root, overlay=overlay)
        module.run(check, analysis)
    except AnalysisError as err:
        check.error(str(err))
    except Exception as err:
        check.error('internal %s: %s' % (type(err).__name__, err))
    buffer = io.StringIO()
    with contextlib.redirect_stdout(buffer):
        code = check.finish(write=False)
    failing = ['%s %s' % (i.rule, i.construct) for i in check.instances
               if not i.ok and not i.known]
    result['exit'] = code
    result['reported'] = failing[:8]
    result['errors'] = check.errors[:3]
    expect = variant.get('expect')
    if result['kind'] == 'twin':
        result['status'] = 'ok' if code == 0 else 'FALSE-ALARM'
    else:
        hit = code == 1 and (expect is None or any(expect in text for text in failing))
        if hit:
            result['status'] = 'ok'
        elif code == 2 and variant.get('allow_error'):
            result['status'] = 'ok'
        else:
            result['status'] = 'MISSED'
    return result


def _worker(args):
    sys.setrecursionlimit(10000)
    variant, root = args
    try:
        return run_variant(variant, root)
    except Exception as err:
        return {'id': variant['id'], 'property': variant['property'],
                'kind': variant.get('kind', 'mutant'), 'status': 'ERROR',
                'errors': ['%s: %s' % (type(err).__name__, err)]}


def run_selftest(prop_id: str = None, root: str = None, jobs: int = None,
                 corpus: bool = True, twin_sample: int = None, seed: int = 0) -> list:
    chosen = [v for v in VARIANTS if prop_id is None or v['property'] == prop_id]
    if corpus:
        from .corpus import corpus_variants
        found = corpus_variants(prop_id)
        refactorings = [v for v in found if v['id'].startswith('refactoring-')]
        if twin_sample is not None and len(refactorings) > twin_sample:
            # a rotating sample of the refactorings (every one of them is analysed for all
            # properties by tools/corpuscheck.py; a thorough run of one property takes a
            # different slice for every VERIF_SEED)
            step = -(-len(refactorings) // twin_sample)
            keep = {id(v) for index, v in enumerate(refactorings)
                    if (index + seed) % step == 0}
            found = [v for v in found if not v['id'].startswith('refactoring-')
                     or id(v) in keep]
        chosen += found
    if not chosen:
        return []
    jobs = jobs or min(16, os.cpu_count() or 4, len(chosen))
    if jobs <= 1:
        return [_worker((v, root)) for v in chosen]
    with concurrent.futures.ProcessPoolExecutor(max_workers=jobs) as pool:
        return list(pool.map(_worker, [(v, root) for v in chosen]))


def summarise(results: list) -> dict:
    return {
        'variants': len(results),
        'mutants_detected': sum(1 for r in results if r['kind'] == 'mutant'
                                and r['status'] == 'ok'),
        'mutants_missed': [r['id'] for r in results if r['status'] == 'MISSED'],
        'twins_silent': sum(1 for r in results if r['kind'] == 'twin'
                            and r['status'] == 'ok'),
        'twin_false_alarms': [r['id'] for r in results if r['status'] == 'FALSE-ALARM'],
        'seeded_changes_detected': sum(1 for r in results if r['kind'] == 'mutant'
                                       and r['id'].startswith('seeded-')
                                       and r['status'] == 'ok'),
        'refactorings_silent': sum(1 for r in results if r['kind'] == 'twin'
                                   and r['id'].startswith('refactoring-')
                                   and r['status'] == 'ok'),
        'skipped': [r['id'] for r in results if r['status'] == 'skipped'],
        'errors': [r['id'] for r in results if r['status'] == 'ERROR'],
    }


def main(argv) -> int:
    prop = argv[0].upper() if argv else None
    results = run_selftest(prop)
    bad = 0
    for result in results:
        flag = result['status']
        if flag not in ('ok', 'skipped'):
            bad += 1
        print('%-11s %-4s %-6s %-34s %s %s' % (
            flag, result['property'], result['kind'], result['id'],
            result.get('reported', [])[:2], result.get('errors') or ''))
    print(summarise(results))
    return 1 if bad else 0
