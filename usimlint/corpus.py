"""
The patch corpus as self-test variants.

/verif/seeded/<Cnn-k>/patch.diff  property-breaking changes written by sub-agents that saw
                                  nothing of /verif (each verified to pass the test suite
                                  and to break the property): mutants of property Cnn
/verif/twins/<Rn-k>/patch.diff    behaviour-preserving refactorings written the same way:
                                  twins for *every* property

The patches are applied **in memory** to the sources read from /repo (a small unified-diff
applier, exact context match with a line offset search); /repo itself is never touched.
A patch whose context no longer matches is skipped, never failed.
"""
import json
import os
import re

VERIF = os.path.dirname(os.path.dirname(os.path.abspath(__file__)))
_HUNK = re.compile(r'^@@ -(\d+)(?:,(\d+))? \+(\d+)(?:,(\d+))? @@')


class PatchError(Exception):
    pass


def parse_patch(text: str):
    """[(path, [(old_start, [(tag, line)])])] for a unified diff"""
    files = []
    current = None
    hunk = None
    for line in text.splitlines():
        if line.startswith('diff --git'):
            current = None
            hunk = None
        elif line.startswith('--- '):
            hunk = None
        elif line.startswith('+++ '):
            target = line[4:].strip()
            if target.startswith('b/'):
                target = target[2:]
            current = (target, [])
            files.append(current)
            hunk = None
        elif line.startswith('@@') and current is not None:
            match = _HUNK.match(line)
            if not match:
                raise PatchError('bad hunk header %r' % line)
            hunk = (int(match.group(1)), [])
            current[1].append(hunk)
        elif hunk is not None and line[:1] in (' ', '+', '-'):
            hunk[1].append((line[0], line[1:]))
        elif hunk is not None and line == '':
            hunk[1].append((' ', ''))
        elif line.startswith('\\'):
            continue
    return files


def apply_patch(sources: dict, text: str) -> dict:
    """overlay {relpath: new text} or PatchError"""
    overlay = {}
    for rel, hunks in parse_patch(text):
        if rel == '/dev/null':
            continue
        if rel not in sources:
            if all(tag == '+' for _s, body in hunks for tag, _l in body):
                if rel.startswith('usim/') and rel.endswith('.py'):
                    overlay[rel] = '\n'.join(l for _s, body in hunks for _t, l in body) + '\n'
                continue
            raise PatchError('%s is not a source of the package' % rel)
        lines = sources[rel].split('\n')
        shift = 0
        for start, body in hunks:
            old = [l for tag, l in body if tag in (' ', '-')]
            new = [l for tag, l in body if tag in (' ', '+')]
            # trailing blank context produced by the line splitting
            at = None
            guess = start - 1 + shift
            for delta in sorted(range(-60, 61), key=abs):
                pos = guess + delta
                if 0 <= pos and lines[pos:pos + len(old)] == old:
                    at = pos
                    break
            if at is None:
                raise PatchError('hunk at %s:%d does not match' % (rel, start))
            lines[at:at + len(old)] = new
            shift += len(new) - len(old) + (at - guess)
        overlay[rel] = '\n'.join(lines)
    return overlay


def corpus_variants(prop_id: str = None) -> list:
    result = []
    seeded = os.path.join(VERIF, 'seeded')
    if os.path.isdir(seeded):
        for name in sorted(os.listdir(seeded)):
            patch = os.path.join(seeded, name, 'patch.diff')
            if not os.path.isfile(patch) or not re.match(r'C\d\d-', name):
                continue
            prop = name.split('-')[0]
            if prop_id is not None and prop != prop_id:
                continue
            what = ''
            meta = os.path.join(seeded, name, 'meta.json')
            if os.path.isfile(meta):
                try:
                    what = json.load(open(meta)).get('title', '')
                except ValueError:
                    pass
            result.append(dict(property=prop, id='seeded-' + name, patch=patch, expect=None,
                               what=what, kind='mutant'))
    twins = os.path.join(VERIF, 'twins')
    if os.path.isdir(twins):
        for name in sorted(os.listdir(twins)):
            patch = os.path.join(twins, name, 'patch.diff')
            if not os.path.isfile(patch):
                continue
            for prop in (['C%02d' % n for n in range(1, 21)] if prop_id is None
                         else [prop_id]):
                result.append(dict(property=prop, id='refactoring-%s' % name, patch=patch,
                                   what='behaviour-preserving refactoring', kind='twin'))
    return result
