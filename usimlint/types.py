"""
E3/E4 -- light type inference and call resolution.

Types are frozensets of terms (tuples):
  ('inst', class_qn)            instance of a usim class
  ('cls', class_qn)             the class object itself
  ('ext', name)                 instance of an external / builtin type
  ('cont', name, elem)          external container with element type ``elem``
  ('tuple', (t0, t1, ...))      fixed size tuple
  ('coro'|'agen'|'gen'|'ctx', fn_qn, recv)   result of calling such a function
  ('bound', fn_qn, recv)        function / bound method object (recv may be None)
  ('super', class_qn, recv)     ``super()`` inside a method defined in class_qn
  ('extfn', dotted)             external function or class object
  ('lambda', fn_qn)  ('mod', name)  ('none',)  ('unknown',)
"""
import ast
from typing import Optional, List, Tuple, FrozenSet

from .model import Program, FunctionInfo, ClassInfo, Module, AnalysisError

TypeSet = FrozenSet[tuple]
UNKNOWN = frozenset({('unknown',)})
NONE = frozenset({('none',)})
EMPTY = frozenset()
BOOL = frozenset({('ext', 'bool')})

#: classes deriving from Protocol and the classes that implement them structurally
PROTOCOL_IMPL = {
    'usim._core.handler.AbstractLoop': ['usim._core.loop.Loop'],
}
#: placeholder classes whose every attribute access raises -- never a callee
PLACEHOLDERS = {'usim._core.handler.MissingLoop'}

AWAITABLE = frozenset({('awaitable',)})
CALLABLE = frozenset({('callable',)})
_TYPING_AWAITABLE = {'Coroutine', 'Awaitable'}
_TYPING_OPAQUE = {
    'Generator', 'Any', 'AsyncIterable',
    'AsyncIterator', 'Iterable', 'Iterator', 'TypeVar', 'Sequence', 'ClassVar',
    'Generic', 'NamedTuple', 'AnyT',
}
_CONTAINERS = {
    'List': 'list', 'list': 'list', 'Deque': 'deque', 'deque': 'deque',
    'Set': 'set', 'set': 'set', 'FrozenSet': 'frozenset', 'frozenset': 'frozenset',
    'Dict': 'dict', 'dict': 'dict', 'WeakSet': 'WeakSet',
    'WeakValueDictionary': 'WeakValueDictionary',
    'WeakKeyDictionary': 'WeakKeyDictionary', 'SortedDict': 'SortedDict',
    'SortedList': 'SortedList', 'SortedKeyList': 'SortedKeyList',
}


class Frame:
    """Static context of one function: definition + concrete receiver class"""
    __slots__ = ('fn', 'recv', 'module')

    def __init__(self, fn: Optional[FunctionInfo], recv: Optional[str], module: Module = None):
        self.fn = fn
        self.recv = recv
        self.module = module if module is not None else fn.module

    def key(self):
        return (self.fn.qn if self.fn else None, self.recv)

    def __repr__(self):
        return '<Frame %s recv=%s>' % (self.fn.qn if self.fn else self.module.name,
                                       self.recv)


class Callee:
    """A resolved usim callee: function + concrete receiver class"""
    __slots__ = ('fn', 'recv')

    def __init__(self, fn: FunctionInfo, recv: Optional[str]):
        self.fn = fn
        self.recv = recv

    def key(self):
        return (self.fn.qn, self.recv)

    def __eq__(self, other):
        return isinstance(other, Callee) and self.key() == other.key()

    def __hash__(self):
        return hash(self.key())

    def __repr__(self):
        short = self.recv.rsplit('.', 1)[-1] if self.recv else None
        if short and self.fn.cls is not None and self.fn.cls.qn != self.recv:
            return '%s[%s]' % (self.fn.qn, short)
        return self.fn.qn


class TypeEngine:
    def __init__(self, program: Program):
        self.p = program
        self._locals = {}
        self._attr = {}
        self._ret = {}
        self._busy = set()
        self._attr_sites = None
        self._check_protocols()

    def _check_protocols(self):
        for proto, impls in PROTOCOL_IMPL.items():
            pcls = self.p.classes.get(proto)
            if pcls is None:
                raise AnalysisError('protocol class %s not found' % proto)
            for impl in impls:
                icls = self.p.classes.get(impl)
                if icls is None:
                    raise AnalysisError('protocol implementer %s not found' % impl)
                slots = set(_const_strings(icls.slots)) if icls.slots is not None else set()
                missing = [n for n in pcls.annotations
                           if n not in slots and n not in icls.attrs
                           and n not in icls.methods]
                if missing:
                    raise AnalysisError('%s does not implement %s: missing %s'
                                        % (impl, proto, missing))

    # ------------------------------------------------------------------ utils
    def inst(self, qn: str) -> TypeSet:
        return frozenset({('inst', qn)})

    def classes_of(self, ts: TypeSet) -> List[str]:
        """usim class qns of the instance terms of a type set (protocols expanded)"""
        result = []
        for term in ts:
            if term[0] == 'inst':
                for qn in PROTOCOL_IMPL.get(term[1], [term[1]]):
                    if qn not in PLACEHOLDERS and qn not in result:
                        result.append(qn)
        return sorted(result)

    # ------------------------------------------------------------ annotations
    def ann_type(self, ann, module: Module, fn: FunctionInfo = None) -> TypeSet:
        if ann is None:
            return UNKNOWN
        if isinstance(ann, str):
            try:
                ann = ast.parse(ann.strip(), mode='eval').body
            except SyntaxError:
                return UNKNOWN
        if isinstance(ann, ast.Constant):
            if isinstance(ann.value, str):
                return self.ann_type(ann.value, module, fn)
            if ann.value is None:
                return NONE
            return UNKNOWN
        if isinstance(ann, ast.Name):
            name = ann.id
            if name in ('float', 'int', 'str', 'bool', 'object', 'bytes'):
                return frozenset({('ext', name)})
            if name in _CONTAINERS:
                return frozenset({('cont', _CONTAINERS[name], UNKNOWN)})
            if name in ('tuple', 'Tuple'):
                return frozenset({('ext', 'tuple')})
            if name == 'None':
                return NONE
            binding = self.p.lookup(module, name)
            return self._binding_as_annotation(binding, module, name)
        if isinstance(ann, ast.Attribute):
            binding = self.p.resolve_dotted(module, ann)
            return self._binding_as_annotation(binding, module, ann.attr)
        if isinstance(ann, ast.Subscript):
            base = ann.value
            base_name = base.id if isinstance(base, ast.Name) else (
                base.attr if isinstance(base, ast.Attribute) else None)
            args = ann.slice.elts if isinstance(ann.slice, ast.Tuple) else [ann.slice]
            if base_name == 'Optional':
                return self.ann_type(args[0], module, fn) | NONE
            if base_name == 'Union':
                result = EMPTY
                for arg in args:
                    result |= self.ann_type(arg, module, fn)
                return result
            if base_name in ('Type', 'type'):
                inner = self.ann_type(args[0], module, fn)
                return frozenset(('cls', t[1]) if t[0] == 'inst' else ('unknown',)
                                 for t in inner) or UNKNOWN
            if base_name in ('Tuple', 'tuple'):
                if len(args) == 2 and isinstance(args[1], ast.Constant) \
                        and args[1].value is Ellipsis:
                    return frozenset({('cont', 'tuple', self.ann_type(args[0], module, fn))})
                return frozenset({('tuple', tuple(self.ann_type(a, module, fn)
                                                  for a in args))})
            if base_name in _CONTAINERS:
                elem = self.ann_type(args[-1], module, fn)
                return frozenset({('cont', _CONTAINERS[base_name], elem)})
            if base_name in _TYPING_AWAITABLE:
                return AWAITABLE
            if base_name == 'Callable':
                return CALLABLE
            if base_name in _TYPING_OPAQUE:
                return UNKNOWN
            return self.ann_type(base, module, fn)
        return UNKNOWN

    def _binding_as_annotation(self, binding, module, name) -> TypeSet:
        kind = binding[0]
        if kind == 'class':
            return self.inst(binding[1])
        if kind == 'ext':
            short = binding[1].split('.')[-1]
            if short in _TYPING_AWAITABLE:
                return AWAITABLE
            if short == 'Callable':
                return CALLABLE
            if short in _TYPING_OPAQUE:
                return UNKNOWN
            if short in _CONTAINERS:
                return frozenset({('cont', _CONTAINERS[short], UNKNOWN)})
            return frozenset({('ext', short)})
        if kind == 'assign':
            # alias of classes, e.g. WaitQueue = HQWaitQueue / SDWaitQueue, or a TypeVar
            result = EMPTY
            mod = self.p.modules[binding[2]]
            for value, _stmt in mod.assigns.get(binding[1], ()):
                if value is None:
                    continue
                for term in self.expr_type(value, Frame(None, None, mod)):
                    if term[0] == 'cls':
                        result |= self.inst(term[1])
            return result or UNKNOWN
        return UNKNOWN

    # ----------------------------------------------------------------- locals
    def local_types(self, frame: Frame) -> dict:
        key = frame.key()
        if key in self._locals:
            return self._locals[key]
        fn = frame.fn
        table = {}
        self._locals[key] = table  # recursion: partial results are visible
        if fn is None:
            return table
        node = fn.node
        module = fn.module
        args = node.args
        params = list(args.posonlyargs) + list(args.args)
        first_is_self = fn.cls is not None and not fn.is_static and params
        for index, arg in enumerate(params):
            if index == 0 and first_is_self and frame.recv is not None:
                if fn.is_classmethod or fn.name == '__new__' or (
                        self._is_metaclass(fn.cls) and False):
                    table[arg.arg] = frozenset({('cls', frame.recv)})
                else:
                    table[arg.arg] = self.inst(frame.recv)
                continue
            table[arg.arg] = self.ann_type(arg.annotation, module, fn)
        for arg in args.kwonlyargs:
            table[arg.arg] = self.ann_type(arg.annotation, module, fn)
        if args.vararg is not None:
            elem = self.ann_type(args.vararg.annotation, module, fn)
            table[args.vararg.arg] = frozenset({('cont', 'tuple', elem)})
        if args.kwarg is not None:
            elem = self.ann_type(args.kwarg.annotation, module, fn)
            table[args.kwarg.arg] = frozenset({('cont', 'dict', elem)})
        if isinstance(node, ast.Lambda):
            return table
        bindings = _collect_local_bindings(node)
        # rounds so that chains  a = f(); b = a.x  resolve: every round recomputes all
        # bindings with the previous round's table visible, until nothing changes
        base = dict(table)
        for _round in range(5):
            new = dict(base)
            for name, how, expr, extra in bindings:
                if how == 'element' and not any(
                        term[0] == 'cont' for term in table.get(name, EMPTY)):
                    continue  # not a local container
                ts = self._binding_type(how, expr, extra, frame)
                if ts is None:
                    continue
                prev = new.get(name, EMPTY)
                merged = (prev | ts)
                if len(merged) > 1:
                    merged = merged - UNKNOWN or UNKNOWN
                new[name] = merged
            # a container filled element by element: drop the unknown-element literal
            for name, ts in list(new.items()):
                conts = [term for term in ts if term[0] == 'cont']
                if len(conts) > 1:
                    known = [term for term in conts if term[2] != UNKNOWN]
                    if known and len(known) < len(conts):
                        new[name] = frozenset(term for term in ts
                                              if term[0] != 'cont' or term in known)
            if new == table:
                break
            table.clear()
            table.update(new)
        return table

    def _is_metaclass(self, cls: Optional[ClassInfo]) -> bool:
        return cls is not None and 'ext:type' in cls.mro

    def _binding_type(self, how, expr, extra, frame) -> Optional[TypeSet]:
        if how == 'assign':
            if extra is not None and isinstance(extra, str):
                ann = self.ann_type(extra, frame.module, frame.fn)
                if ann != UNKNOWN:
                    return ann
            return self.expr_type(expr, frame)
        if how == 'ann':
            ann = self.ann_type(extra, frame.module, frame.fn)
            if ann != UNKNOWN:
                return ann
            return self.expr_type(expr, frame) if expr is not None else UNKNOWN
        if how == 'unpack':
            ts = self.expr_type(expr, frame)
            return self._unpack(ts, extra)
        if how == 'iter':
            return self.elem_type(self.expr_type(expr, frame))
        if how == 'iter-unpack':
            return self._unpack(self.elem_type(self.expr_type(expr, frame)), extra)
        if how == 'aiter':
            return self._aiter_elem(self.expr_type(expr, frame))
        if how == 'with':
            return self._with_as(self.expr_type(expr, frame))
        if how == 'awith':
            return self._awith_as(self.expr_type(expr, frame))
        if how == 'element':
            return frozenset({('cont', 'list', self.expr_type(expr, frame))})
        if how == 'except':
            if expr is None:
                return frozenset({('ext', 'BaseException')})
            result = EMPTY
            for qn in self.exception_classes(expr, frame.module):
                if qn.startswith('ext:'):
                    result |= frozenset({('ext', qn[4:])})
                else:
                    result |= self.inst(qn)
            return result or UNKNOWN
        return UNKNOWN

    def _unpack(self, ts: TypeSet, index: int) -> TypeSet:
        result = EMPTY
        for term in ts:
            if term[0] == 'tuple' and index < len(term[1]):
                result |= term[1][index]
            elif term[0] == 'cont':
                result |= term[2]
            else:
                result |= UNKNOWN
        return _norm(result)

    def elem_type(self, ts: TypeSet) -> TypeSet:
        result = EMPTY
        for term in ts:
            if term[0] == 'cont':
                result |= term[2]
            elif term[0] == 'tuple':
                for sub in term[1]:
                    result |= sub
            else:
                result |= UNKNOWN
        return _norm(result)

    def _aiter_elem(self, ts: TypeSet) -> TypeSet:
        return UNKNOWN

    def _with_as(self, ts: TypeSet) -> TypeSet:
        result = EMPTY
        for term in ts:
            if term[0] == 'ext' and term[1] == 'ExitStack':
                result |= frozenset({term})
            elif term[0] == 'inst':
                enter = self.p.find_method(term[1], '__enter__')
                if enter is not None:
                    result |= self.ret_type(Callee(enter, term[1]))
                else:
                    result |= UNKNOWN
            else:
                result |= UNKNOWN
        return _norm(result)

    def _awith_as(self, ts: TypeSet) -> TypeSet:
        result = EMPTY
        for term in ts:
            if term[0] == 'inst':
                enter = self.p.find_method(term[1], '__aenter__')
                if enter is not None:
                    result |= self.ret_type(Callee(enter, term[1]))
                    continue
            result |= UNKNOWN
        return _norm(result)

    def lookup_name(self, name: str, frame: Frame) -> TypeSet:
        """type of a name read in ``frame`` (locals, closure, globals, builtins)"""
        fn = frame.fn
        cur = fn
        while cur is not None:
            # receiver of enclosing methods stays the same concrete class
            table = self.local_types(Frame(cur, frame.recv, frame.module))
            if name in table:
                return table[name]
            cur = cur.parent
        if name == '__debug__':
            return BOOL
        binding = self.p.lookup(frame.module, name)
        return self.binding_type(binding, frame.module)

    def binding_type(self, binding, module: Module) -> TypeSet:
        kind = binding[0]
        if kind == 'class':
            return frozenset({('cls', binding[1])})
        if kind == 'func':
            return frozenset({('bound', binding[1], None)})
        if kind == 'module':
            return frozenset({('mod', binding[1])})
        if kind == 'extmodule':
            return frozenset({('extfn', binding[1])})
        if kind == 'ext':
            name = binding[1]
            if name.startswith('builtins.'):
                name = name[len('builtins.'):]
            return frozenset({('extfn', name)})
        if kind == 'assign':
            mod = self.p.modules[binding[2]]
            key = ('global', mod.name, binding[1])
            if key in self._busy:
                return UNKNOWN
            self._busy.add(key)
            try:
                result = EMPTY
                for value, stmt in mod.assigns.get(binding[1], ()):
                    if value is None:
                        result |= UNKNOWN
                        continue
                    comment = getattr(stmt, 'type_comment', None)
                    ts = UNKNOWN
                    if comment:
                        ts = self.ann_type(comment, mod)
                        # `X = cls  # type: Type[...]` keeps the class object
                        if ts != UNKNOWN and not any(t[0] == 'cls' for t in ts):
                            pass
                    ets = self.expr_type(value, Frame(None, None, mod))
                    result |= ets if ets != UNKNOWN else ts
                return _norm(result)
            finally:
                self._busy.discard(key)
        if kind == 'classattr':
            cls = self.p.classes[binding[1]]
            return self.expr_type(cls.attrs[binding[2]], Frame(None, None, cls.module))
        return UNKNOWN

    # ------------------------------------------------------------- attributes
    def _build_attr_sites(self):
        """class qn -> attr -> [(fn, value expr or None, annotation-ish)]"""
        sites = {}
        for fn in self.p.functions.values():
            owner = self.p.enclosing_self_class(fn)
            if owner is None or isinstance(fn.node, ast.Lambda):
                continue
            # name of `self` in the defining method
            method = fn
            while method.cls is None and method.parent is not None:
                method = method.parent
            margs = method.node.args.posonlyargs + method.node.args.args
            if not margs or method.is_static:
                continue
            self_name = margs[0].arg
            for node in _walk_own(fn.node):
                targets = []
                value = None
                comment = None
                if isinstance(node, ast.Assign):
                    targets = node.targets
                    value = node.value
                    comment = node.type_comment
                elif isinstance(node, ast.AnnAssign):
                    targets = [node.target]
                    value = node.value
                    comment = node.annotation
                elif isinstance(node, ast.AugAssign):
                    targets = [node.target]
                    value = None
                for target in targets:
                    flat = []
                    _flatten_targets(target, flat)
                    for index, (tnode, idx_path) in enumerate(flat):
                        if isinstance(tnode, ast.Attribute) and \
                                isinstance(tnode.value, ast.Name) and \
                                tnode.value.id == self_name:
                            sites.setdefault(owner.qn, {}).setdefault(tnode.attr, []).append(
                                (fn, value, comment, idx_path, len(flat) > 1))
        self._attr_sites = sites

    def attr_type(self, cls_qn: str, attr: str, recv: str = None) -> TypeSet:
        """type of ``instance.attr`` for an instance of concrete class ``cls_qn``"""
        recv = recv or cls_qn
        key = (cls_qn, attr, recv)
        if key in self._attr:
            return self._attr[key]
        if key in self._busy:
            return UNKNOWN
        self._busy.add(key)
        try:
            result = self._attr_type(cls_qn, attr, recv)
        finally:
            self._busy.discard(key)
        self._attr[key] = result
        return result

    def _attr_type(self, cls_qn, attr, recv) -> TypeSet:
        if self._attr_sites is None:
            self._build_attr_sites()
        cls = self.p.classes.get(cls_qn)
        if cls is None:
            return UNKNOWN
        method = self.p.find_method(cls_qn, attr)
        if method is not None:
            if method.is_property:
                return self.ret_type(Callee(method, recv))
            if method.is_static:
                return frozenset({('bound', method.qn, None)})
            return frozenset({('bound', method.qn, recv)})
        result = EMPTY
        annotated = EMPTY
        for entry in cls.mro:
            info = self.p.classes.get(entry)
            if info is None:
                continue
            if attr in info.annotations:
                annotated |= self.ann_type(info.annotations[attr], info.module)
            if attr in info.attrs:
                result |= self.expr_type(info.attrs[attr], Frame(None, None, info.module))
            for fn, value, comment, idx_path, multi in \
                    self._attr_sites.get(entry, {}).get(attr, ()):
                ts = UNKNOWN
                if comment is not None and not multi:
                    ts = self.ann_type(comment, fn.module, fn)
                if ts == UNKNOWN and value is not None:
                    ts = self.expr_type(value, Frame(fn, recv, fn.module))
                    for index in idx_path:
                        ts = self._unpack(ts, index)
                result |= ts
        annotated = annotated - UNKNOWN
        if annotated:
            # an annotation names the intended (possibly abstract) type: keep both
            result = (result - UNKNOWN) | annotated
        return _norm(result) if result else UNKNOWN

    def ext_attr_type(self, term, attr: str) -> TypeSet:
        return UNKNOWN

    # ----------------------------------------------------------- return types
    def ret_type(self, callee: Callee) -> TypeSet:
        """type of the value produced by running ``callee`` to its return"""
        key = ('ret',) + callee.key()
        if key in self._ret:
            return self._ret[key]
        if key in self._busy:
            return UNKNOWN
        self._busy.add(key)
        try:
            result = self._ret_type(callee)
        finally:
            self._busy.discard(key)
        self._ret[key] = result
        return result

    def _ret_type(self, callee: Callee) -> TypeSet:
        fn = callee.fn
        node = fn.node
        frame = Frame(fn, callee.recv, fn.module)
        if isinstance(node, ast.Lambda):
            return self.expr_type(node.body, frame)
        ann = EMPTY
        if node.returns is not None and fn.kind in ('sync', 'coroutine'):
            ann = self.ann_type(node.returns, fn.module, fn) - UNKNOWN
        if fn.kind == 'generator' and node.returns is not None:
            # Generator[Y, S, R] -> R
            ret = node.returns
            if isinstance(ret, ast.Constant) and isinstance(ret.value, str):
                try:
                    ret = ast.parse(ret.value, mode='eval').body
                except SyntaxError:
                    ret = None
            if isinstance(ret, ast.Subscript) and isinstance(ret.slice, ast.Tuple) \
                    and len(ret.slice.elts) == 3:
                ann = self.ann_type(ret.slice.elts[2], fn.module, fn) - UNKNOWN
        inferred = EMPTY
        has_return = False
        for sub in _walk_own(node):
            if isinstance(sub, ast.Return):
                has_return = True
                if sub.value is None:
                    inferred |= NONE
                else:
                    inferred |= self.expr_type(sub.value, frame)
        if not has_return:
            inferred |= NONE
        inferred = inferred - UNKNOWN
        # prefer the more precise inferred type when it refines the annotation
        if ann and inferred:
            if all(t[0] in ('inst', 'cls', 'coro', 'agen', 'gen', 'ctx', 'cont', 'tuple',
                            'none', 'ext') for t in inferred):
                return _norm(inferred | frozenset(t for t in ann if t[0] == 'tuple'))
        result = ann or inferred
        return _norm(result) if result else UNKNOWN

    def call_result(self, callee: Callee) -> TypeSet:
        """type of the *call expression* ``callee(...)``"""
        kind = callee.fn.kind
        if kind == 'coroutine':
            return frozenset({('coro', callee.fn.qn, callee.recv)})
        if kind == 'asyncgen':
            return frozenset({('agen', callee.fn.qn, callee.recv)})
        if kind == 'generator':
            return frozenset({('gen', callee.fn.qn, callee.recv)})
        if kind == 'ctxgen':
            return frozenset({('ctx', callee.fn.qn, callee.recv)})
        return self.ret_type(callee)

    # ------------------------------------------------------------ expressions
    def expr_type(self, expr, frame: Frame) -> TypeSet:
        try:
            return self._expr_type(expr, frame)
        except RecursionError:
            return UNKNOWN

    def _expr_type(self, expr, frame: Frame) -> TypeSet:
        if isinstance(expr, ast.Name):
            return self.lookup_name(expr.id, frame)
        if isinstance(expr, ast.Constant):
            value = expr.value
            if value is None:
                return NONE
            if value is Ellipsis:
                return frozenset({('ext', 'ellipsis')})
            return frozenset({('ext', type(value).__name__)})
        if isinstance(expr, ast.Attribute):
            return self._attribute_type(expr, frame)
        if isinstance(expr, ast.Call):
            return self._call_type(expr, frame)
        if isinstance(expr, ast.Await):
            return self.await_result(self.expr_type(expr.value, frame))
        if isinstance(expr, ast.YieldFrom):
            return self.await_result(self.expr_type(expr.value, frame))
        if isinstance(expr, ast.Yield):
            return UNKNOWN
        if isinstance(expr, ast.IfExp):
            return _norm(self.expr_type(expr.body, frame) | self.expr_type(expr.orelse, frame))
        if isinstance(expr, ast.BoolOp):
            result = EMPTY
            for value in expr.values:
                result |= self.expr_type(value, frame)
            return _norm(result)
        if isinstance(expr, ast.UnaryOp):
            if isinstance(expr.op, ast.Not):
                return BOOL
            operand = self.expr_type(expr.operand, frame)
            name = {'Invert': '__invert__', 'USub': '__neg__', 'UAdd': '__pos__'}[
                type(expr.op).__name__]
            return self._dunder_result(operand, name, operand)
        if isinstance(expr, ast.BinOp):
            left = self.expr_type(expr.left, frame)
            name = _BINOP[type(expr.op).__name__]
            return self._dunder_result(left, name, left)
        if isinstance(expr, ast.Compare):
            if len(expr.ops) == 1 and not isinstance(
                    expr.ops[0], (ast.Is, ast.IsNot, ast.In, ast.NotIn)):
                left = self.expr_type(expr.left, frame)
                name = _CMPOP[type(expr.ops[0]).__name__]
                res = self._dunder_result(left, name, BOOL)
                return res
            return BOOL
        if isinstance(expr, ast.Subscript):
            base = self.expr_type(expr.value, frame)
            if isinstance(expr.slice, ast.Slice):
                return base
            result = EMPTY
            for term in base:
                if term[0] == 'cont':
                    result |= term[2]
                elif term[0] == 'tuple':
                    if isinstance(expr.slice, ast.Constant) and \
                            isinstance(expr.slice.value, int) and \
                            -len(term[1]) <= expr.slice.value < len(term[1]):
                        result |= term[1][expr.slice.value]
                    else:
                        for sub in term[1]:
                            result |= sub
                elif term[0] == 'cls':
                    # Concurrent[...] / Generic[...] -> still the class
                    result |= frozenset({term})
                elif term[0] == 'inst':
                    getitem = self.p.find_method(term[1], '__getitem__')
                    if getitem is not None:
                        result |= self.ret_type(Callee(getitem, term[1]))
                    else:
                        result |= UNKNOWN
                else:
                    result |= UNKNOWN
            return _norm(result) if result else UNKNOWN
        if isinstance(expr, (ast.List, ast.Tuple, ast.Set)):
            elem = EMPTY
            parts = []
            for elt in expr.elts:
                if isinstance(elt, ast.Starred):
                    ts = self.elem_type(self.expr_type(elt.value, frame))
                    parts = None
                else:
                    ts = self.expr_type(elt, frame)
                    if parts is not None:
                        parts.append(ts)
                elem |= ts
            elem = _norm(elem) if elem else UNKNOWN
            if isinstance(expr, ast.Tuple) and parts is not None and parts:
                return frozenset({('tuple', tuple(parts))})
            name = {'List': 'list', 'Tuple': 'tuple', 'Set': 'set'}[type(expr).__name__]
            return frozenset({('cont', name, elem)})
        if isinstance(expr, ast.Dict):
            elem = EMPTY
            for value in expr.values:
                elem |= self.expr_type(value, frame)
            return frozenset({('cont', 'dict', _norm(elem) if elem else UNKNOWN)})
        if isinstance(expr, (ast.ListComp, ast.SetComp, ast.GeneratorExp)):
            elem = self.expr_type(expr.elt, frame)
            name = {'ListComp': 'list', 'SetComp': 'set',
                    'GeneratorExp': 'genexpr'}[type(expr).__name__]
            return frozenset({('cont', name, elem)})
        if isinstance(expr, ast.DictComp):
            return frozenset({('cont', 'dict', self.expr_type(expr.value, frame))})
        if isinstance(expr, ast.Lambda):
            fn = self.p.node_fn.get(id(expr))
            return frozenset({('lambda', fn.qn)}) if fn else UNKNOWN
        if isinstance(expr, (ast.JoinedStr, ast.FormattedValue)):
            return frozenset({('ext', 'str')})
        if isinstance(expr, ast.Starred):
            return self.expr_type(expr.value, frame)
        if isinstance(expr, ast.NamedExpr):
            return self.expr_type(expr.value, frame)
        return UNKNOWN

    def _dunder_result(self, operand: TypeSet, name: str, default: TypeSet) -> TypeSet:
        result = EMPTY
        for term in operand:
            if term[0] == 'inst':
                method = self.p.find_method(term[1], name)
                if method is not None:
                    result |= self.call_result(Callee(method, term[1]))
                    continue
                result |= UNKNOWN
            elif term[0] in ('ext', 'cont', 'tuple'):
                result |= default if default is BOOL else frozenset({term})
            else:
                result |= UNKNOWN
        return _norm(result) if result else UNKNOWN

    def _attribute_type(self, expr: ast.Attribute, frame: Frame) -> TypeSet:
        base = self.expr_type(expr.value, frame)
        attr = expr.attr
        result = EMPTY
        for term in base:
            kind = term[0]
            if kind == 'inst':
                qns = PROTOCOL_IMPL.get(term[1], [term[1]])
                for qn in qns:
                    if qn in PLACEHOLDERS:
                        continue
                    ts = self.attr_type(qn, attr)
                    if ts == UNKNOWN and attr == '__class__':
                        ts = frozenset({('cls', qn)})
                    result |= ts
            elif kind == 'cls':
                method = self.p.find_method(term[1], attr)
                if method is not None:
                    if method.is_classmethod:
                        result |= frozenset({('bound', method.qn, term[1])})
                    elif method.is_static:
                        result |= frozenset({('bound', method.qn, None)})
                    elif self._is_metaclass(method.cls):
                        result |= frozenset({('bound', method.qn, method.cls.qn)})
                    else:
                        result |= frozenset({('bound', method.qn, None)})
                    continue
                found = self.p.find_class_attr(term[1], attr)
                if found is not None:
                    owner = self.p.classes[found[0]]
                    result |= self.expr_type(found[1], Frame(None, None, owner.module))
                    continue
                cls = self.p.classes[term[1]]
                meta = None
                for entry in cls.mro:
                    info = self.p.classes.get(entry)
                    if info is not None and info.metaclass is not None:
                        meta = self.p.resolve_dotted(info.module, info.metaclass)
                        break
                if meta is not None and meta[0] == 'class':
                    mm = self.p.find_method(meta[1], attr)
                    if mm is not None:
                        result |= frozenset({('bound', mm.qn, meta[1])})
                        continue
                if attr == '__name__':
                    result |= frozenset({('ext', 'str')})
                    continue
                result |= UNKNOWN
            elif kind == 'super':
                method = self.p.find_method(term[2], attr, after=term[1])
                if method is not None:
                    result |= frozenset({('bound', method.qn, term[2])})
                else:
                    result |= frozenset({('extfn', 'super.' + attr)})
            elif kind == 'mod':
                module = self.p.modules.get(term[1])
                if module is not None and attr in module.bindings:
                    result |= self.binding_type(
                        self.p.resolve_binding(module.bindings[attr]), module)
                elif '%s.%s' % (term[1], attr) in self.p.modules:
                    result |= frozenset({('mod', '%s.%s' % (term[1], attr))})
                else:
                    result |= UNKNOWN
            elif kind == 'extfn':
                result |= frozenset({('extfn', '%s.%s' % (term[1], attr))})
            elif kind in ('ext', 'cont', 'tuple'):
                tname = term[1] if kind != 'tuple' else 'tuple'
                result |= frozenset({('extmeth', tname, attr, term)})
            elif kind in ('coro', 'gen', 'agen'):
                result |= frozenset({('extmeth', kind, attr, term)})
            elif kind == 'bound':
                if attr in ('__name__', '__qualname__', '__module__', '__doc__'):
                    result |= frozenset({('ext', 'str')})
                else:
                    result |= UNKNOWN
            else:
                result |= self._unique_attr_type(attr)
        return _norm(result) if result else UNKNOWN

    def _unique_attr_type(self, attr: str) -> TypeSet:
        """last resort: the attribute name has one type in the whole package"""
        if self._attr_sites is None:
            self._build_attr_sites()
        key = ('uniq', attr)
        if key in self._attr:
            return self._attr[key]
        self._attr[key] = UNKNOWN
        owners = [qn for qn, table in self._attr_sites.items() if attr in table]
        if not attr.startswith('_') or not owners:
            return UNKNOWN
        found = None
        for qn in owners:
            ts = self.attr_type(qn, attr)
            if ts == UNKNOWN or (found is not None and ts != found):
                return UNKNOWN
            found = ts
        self._attr[key] = found
        return found

    # ------------------------------------------------------------------ calls
    def _call_type(self, expr: ast.Call, frame: Frame) -> TypeSet:
        func = expr.func
        if isinstance(func, ast.Name) and func.id == 'super' and not expr.args:
            owner = self.p.enclosing_self_class(frame.fn) if frame.fn else None
            if owner is not None and frame.recv is not None:
                return frozenset({('super', owner.qn, frame.recv)})
            return UNKNOWN
        if isinstance(func, ast.Name) and func.id == 'super' and len(expr.args) == 2:
            first = self.p.resolve_dotted(frame.module, expr.args[0])
            if first[0] == 'class' and frame.recv is not None:
                return frozenset({('super', first[1], frame.recv)})
            return UNKNOWN
        ftype = self.expr_type(func, frame)
        result = EMPTY
        for term in ftype:
            result |= self._call_term(term, expr, frame)
        return _norm(result) if result else UNKNOWN

    def _call_term(self, term, expr: ast.Call, frame: Frame) -> TypeSet:
        kind = term[0]
        if kind == 'cls':
            cls = self.p.classes[term[1]]
            if 'ext:type' in cls.mro:
                return UNKNOWN
            return self.inst(term[1])
        if kind == 'bound':
            fn = self.p.functions[term[1]]
            recv = term[2]
            if recv is None and fn.cls is not None and not fn.is_static and expr.args:
                # Cls.method(self, ...)
                first = self.expr_type(expr.args[0], frame)
                recvs = self.classes_of(first)
                result = EMPTY
                for qn in recvs:
                    if self.p.is_subclass(qn, fn.cls.qn):
                        result |= self.call_result(Callee(fn, qn))
                if result:
                    return result
                return self.call_result(Callee(fn, fn.cls.qn))
            return self.call_result(Callee(fn, recv))
        if kind == 'lambda':
            fn = self.p.functions[term[1]]
            return self.ret_type(Callee(fn, frame.recv))
        if kind == 'extfn':
            return self._ext_call(term[1], expr, frame)
        if kind == 'extmeth':
            return self._ext_method_call(term, expr, frame)
        if kind == 'inst':
            call = self.p.find_method(term[1], '__call__')
            if call is not None:
                return self.call_result(Callee(call, term[1]))
        return UNKNOWN

    def _ext_call(self, name: str, expr: ast.Call, frame: Frame) -> TypeSet:
        short = name.split('.')[-1]
        args = expr.args
        if short in ('list', 'tuple', 'set', 'frozenset', 'sorted', 'deque', 'reversed'):
            cname = 'list' if short in ('sorted', 'reversed') else short
            if args:
                elem = self.elem_type(self.expr_type(args[0], frame))
            else:
                elem = UNKNOWN
            return frozenset({('cont', cname, elem)})
        if short in ('dict', 'WeakSet', 'WeakValueDictionary', 'WeakKeyDictionary',
                     'SortedDict', 'SortedList', 'SortedKeyList', 'OrderedDict'):
            return frozenset({('cont', short, UNKNOWN)})
        if short in ('len', 'sum', 'int', 'id', 'hash'):
            return frozenset({('ext', 'int')})
        if short == 'float':
            return frozenset({('ext', 'float')})
        if short in ('isinstance', 'issubclass', 'hasattr', 'all', 'any', 'bool', 'callable'):
            return BOOL
        if short in ('str', 'repr', 'format', 'join'):
            return frozenset({('ext', 'str')})
        if short == 'type' and len(args) == 1:
            result = EMPTY
            for term in self.expr_type(args[0], frame):
                if term[0] == 'inst':
                    result |= frozenset({('cls', term[1])})
                else:
                    result |= UNKNOWN
            return result or UNKNOWN
        if short == 'object':
            return frozenset({('ext', 'object')})
        if short == 'ExitStack':
            return frozenset({('ext', 'ExitStack')})
        if short == 'partial' and args:
            # functools.partial(f, ...): calling it calls f
            return self.expr_type(args[0], frame)
        if short == 'next' and args:
            return self.elem_type(self.expr_type(args[0], frame))
        if short == 'iter' and args:
            return self.expr_type(args[0], frame)
        if short == 'enumerate' and args:
            elem = self.elem_type(self.expr_type(args[0], frame))
            return frozenset({('cont', 'enumerate', frozenset(
                {('tuple', (frozenset({('ext', 'int')}), elem))}))})
        if short == 'zip':
            return frozenset({('cont', 'zip', UNKNOWN)})
        if short == 'islice' and args:
            return frozenset({('islice',) + tuple(sorted(self.expr_type(args[0], frame),
                                                         key=repr))})
        if short == 'takewhile' and len(args) == 2:
            return frozenset({('cont', 'takewhile',
                               self.elem_type(self.expr_type(args[1], frame)))})
        if short == 'map' and len(args) >= 2:
            return frozenset({('cont', 'map', UNKNOWN)})
        if short in ('heappop',) and args:
            return self.elem_type(self.expr_type(args[0], frame))
        if short == 'getattr':
            return UNKNOWN
        if short == 'pow':
            return UNKNOWN
        if short in ('TypeVar',):
            return frozenset({('ext', 'TypeVar')})
        import builtins as _b
        if isinstance(getattr(_b, short, None), type) and '.' not in name:
            return frozenset({('ext', short)})
        return frozenset({('ext', 'result-of:' + name)})

    def _ext_method_call(self, term, expr: ast.Call, frame: Frame) -> TypeSet:
        _, tname, attr, recv_term = term
        if recv_term[0] == 'cont':
            elem = recv_term[2]
            if attr in ('pop', 'popleft', 'get', '__getitem__'):
                return elem
            if attr in ('copy',):
                return frozenset({recv_term})
            if attr in ('values',):
                return frozenset({('cont', 'list', elem)})
            if attr in ('items',):
                return frozenset({('cont', 'list', frozenset(
                    {('tuple', (UNKNOWN, elem))}))})
            if attr == 'popitem':
                return frozenset({('tuple', (UNKNOWN, elem))})
            if attr in ('keys',):
                return frozenset({('cont', 'list', UNKNOWN)})
            return frozenset({('ext', 'result-of:%s.%s' % (tname, attr))})
        if recv_term[0] == 'ext' and recv_term[1] == 'ExitStack' and attr == 'enter_context':
            return UNKNOWN
        if recv_term[0] in ('coro', 'gen') and attr == '__await__':
            return frozenset({recv_term})
        if recv_term[0] == 'ext' and recv_term[1] == 'dict' and attr in ('copy',):
            return frozenset({recv_term})
        return frozenset({('ext', 'result-of:%s.%s' % (tname, attr))})

    def await_result(self, awaited: TypeSet) -> TypeSet:
        result = EMPTY
        for term in awaited:
            if term[0] in ('coro', 'gen'):
                fn = self.p.functions[term[1]]
                result |= self.ret_type(Callee(fn, term[2]))
            elif term[0] == 'inst':
                method = self.p.find_method(term[1], '__await__')
                if method is not None:
                    result |= self.ret_type(Callee(method, term[1]))
                else:
                    result |= UNKNOWN
            else:
                result |= UNKNOWN
        return _norm(result) if result else UNKNOWN

    # -------------------------------------------------------- call resolution
    def resolve_callees(self, call: ast.Call, frame: Frame) -> Tuple[List[Callee], List[tuple]]:
        """
        Resolve a call expression to usim callees and external callees

        :return: (usim callees, external descriptors ``(kind, name, ...)``)
        """
        func = call.func
        if isinstance(func, ast.Name) and func.id == 'super':
            return [], [('extfn', 'super')]
        ftype = self.expr_type(func, frame)
        callees, externals = [], []
        for term in sorted(ftype, key=repr):
            kind = term[0]
            if kind == 'bound':
                fn = self.p.functions[term[1]]
                recv = term[2]
                if recv is None and fn.cls is not None and not fn.is_static and call.args:
                    first = self.expr_type(call.args[0], frame)
                    recvs = [qn for qn in self.classes_of(first)
                             if self.p.is_subclass(qn, fn.cls.qn)]
                    if recvs:
                        callees.extend(Callee(fn, qn) for qn in recvs)
                        continue
                    callees.append(Callee(fn, fn.cls.qn))
                    continue
                if recv is not None and fn.cls is not None and \
                        self._receiver_is_declared(func, frame):
                    # declared (annotated) receiver type: add overriding subclasses
                    callees.extend(self._with_overrides(fn, recv))
                    continue
                callees.append(Callee(fn, recv))
            elif kind == 'cls':
                cls = self.p.classes[term[1]]
                for name in ('__new__', '__init__'):
                    method = self.p.find_method(term[1], name)
                    if method is not None:
                        callees.append(Callee(method, term[1]))
                externals.append(('construct', term[1]))
            elif kind == 'lambda':
                callees.append(Callee(self.p.functions[term[1]], frame.recv))
            elif kind == 'extfn':
                externals.append(('extfn', term[1]))
            elif kind == 'callable':
                # a callable handed in by the user (e.g. a comparison operator)
                externals.append(('callable', ast.unparse(func)))
            elif kind == 'extmeth':
                externals.append(('extmeth', term[1], term[2]))
            elif kind == 'inst':
                method = self.p.find_method(term[1], '__call__')
                if method is not None:
                    callees.append(Callee(method, term[1]))
                else:
                    externals.append(('unknown', ast.unparse(func)))
            else:
                externals.append(('unknown', ast.unparse(func)))
        uniq = []
        for callee in callees:
            if callee not in uniq:
                uniq.append(callee)
        return uniq, externals

    def _receiver_is_declared(self, func, frame: Frame) -> bool:
        """whether the receiver expression is not ``self``/``super()`` (so subclasses apply)"""
        if not isinstance(func, ast.Attribute):
            return False
        value = func.value
        if isinstance(value, ast.Call) and isinstance(value.func, ast.Name) \
                and value.func.id == 'super':
            return False
        if isinstance(value, ast.Name) and frame.fn is not None:
            method = frame.fn
            while method.cls is None and method.parent is not None:
                method = method.parent
            margs = method.node.args.posonlyargs + method.node.args.args
            if margs and margs[0].arg == value.id and method.cls is not None:
                return False
        return True

    def _with_overrides(self, fn: FunctionInfo, recv: str) -> List[Callee]:
        """callee for the declared receiver plus overriding implementations in subclasses"""
        result = [Callee(fn, recv)]
        for sub in self.p.subclasses(recv):
            method = self.p.find_method(sub, fn.name)
            if method is not None and method is not fn:
                callee = Callee(method, sub)
                if callee not in result:
                    result.append(callee)
        return result

    def exception_classes(self, expr, module: Module) -> List[str]:
        """class qns / 'ext:Name' named by the type expression of an except clause"""
        if expr is None:
            return ['ext:BaseException']
        if isinstance(expr, ast.Tuple):
            result = []
            for elt in expr.elts:
                result.extend(self.exception_classes(elt, module))
            return result
        binding = self.p.resolve_dotted(module, expr)
        if binding[0] == 'class':
            return [binding[1]]
        if binding[0] == 'ext':
            return ['ext:' + binding[1].split('.')[-1]]
        return ['ext:?' + ast.unparse(expr)]


_BINOP = {
    'Add': '__add__', 'Sub': '__sub__', 'Mult': '__mul__', 'MatMult': '__matmul__',
    'Div': '__truediv__', 'FloorDiv': '__floordiv__', 'Mod': '__mod__', 'Pow': '__pow__',
    'LShift': '__lshift__', 'RShift': '__rshift__', 'BitAnd': '__and__',
    'BitOr': '__or__', 'BitXor': '__xor__',
}
_CMPOP = {
    'Eq': '__eq__', 'NotEq': '__ne__', 'Lt': '__lt__', 'LtE': '__le__',
    'Gt': '__gt__', 'GtE': '__ge__',
}


def _norm(ts: TypeSet) -> TypeSet:
    if len(ts) > 1 and ('unknown',) in ts:
        return ts - UNKNOWN
    return ts


def _const_strings(expr) -> List[str]:
    if expr is None:
        return []
    if isinstance(expr, ast.Constant) and isinstance(expr.value, str):
        return [expr.value]
    if isinstance(expr, (ast.Tuple, ast.List)):
        return [e.value for e in expr.elts
                if isinstance(e, ast.Constant) and isinstance(e.value, str)]
    return []


def _walk_own(fnode):
    """walk a function body without descending into nested function/class definitions"""
    stack = list(fnode.body) if not isinstance(fnode, ast.Lambda) else [fnode.body]
    while stack:
        node = stack.pop()
        yield node
        if isinstance(node, (ast.FunctionDef, ast.AsyncFunctionDef, ast.ClassDef,
                             ast.Lambda)):
            continue
        stack.extend(ast.iter_child_nodes(node))


def _flatten_targets(target, out, path=()):
    if isinstance(target, (ast.Tuple, ast.List)):
        for index, elt in enumerate(target.elts):
            _flatten_targets(elt, out, path + (index,))
    elif isinstance(target, ast.Starred):
        _flatten_targets(target.value, out, path)
    else:
        out.append((target, path))


def _collect_local_bindings(fnode) -> list:
    """(name, how, expr, extra) for every local binding in the function body"""
    result = []

    def bind_target(target, how, expr, extra=None):
        flat = []
        _flatten_targets(target, flat)
        for tnode, path in flat:
            if not isinstance(tnode, ast.Name):
                continue
            if path:
                if how == 'assign':
                    result.append((tnode.id, 'unpack', expr, path[0]))
                elif how == 'iter':
                    result.append((tnode.id, 'iter-unpack', expr, path[0]))
                else:
                    result.append((tnode.id, 'assign', None, None))
            else:
                result.append((tnode.id, how, expr, extra))

    for node in _walk_own(fnode):
        if isinstance(node, ast.Assign):
            for target in node.targets:
                bind_target(target, 'assign', node.value, node.type_comment)
        elif isinstance(node, ast.AnnAssign):
            if isinstance(node.target, ast.Name):
                result.append((node.target.id, 'ann', node.value, node.annotation))
        elif isinstance(node, ast.AugAssign):
            pass
        elif isinstance(node, ast.For):
            bind_target(node.target, 'iter', node.iter)
        elif isinstance(node, ast.AsyncFor):
            bind_target(node.target, 'aiter', node.iter)
        elif isinstance(node, ast.With):
            for item in node.items:
                if item.optional_vars is not None:
                    bind_target(item.optional_vars, 'with', item.context_expr)
        elif isinstance(node, ast.AsyncWith):
            for item in node.items:
                if item.optional_vars is not None:
                    bind_target(item.optional_vars, 'awith', item.context_expr)
        elif isinstance(node, ast.ExceptHandler):
            if node.name:
                result.append((node.name, 'except', node.type, None))
        elif isinstance(node, ast.comprehension):
            bind_target(node.target, 'iter', node.iter)
        elif isinstance(node, ast.NamedExpr):
            bind_target(node.target, 'assign', node.value)
        elif isinstance(node, ast.Call) and isinstance(node.func, ast.Attribute) and \
                isinstance(node.func.value, ast.Name) and len(node.args) >= 1 and \
                node.func.attr in ('append', 'add', 'appendleft', 'insert'):
            # a local container filled element by element
            result.append((node.func.value.id, 'element', node.args[-1], None))
    # filter None-valued
    return [(n, h, e, x) for (n, h, e, x) in result if not (h == 'assign' and e is None)]
