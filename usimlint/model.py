"""
E1/E2 -- program model of the usim package, built from source text only.

Nothing here imports or executes usim.  The model is built from ``{relpath: source}``
so that the self-test can analyse AST-edited variants in memory (overlays).
"""
import ast
import builtins
import os
from typing import Dict, List, Optional, Tuple

from .desugar import desugar


class AnalysisError(Exception):
    """The analysis itself cannot proceed (anchor missing, budget exceeded, ...)"""


REPO_ROOT = os.environ.get('USIMLINT_REPO', '/repo')
PACKAGE = 'usim'


def read_sources(root: str = None, overlay: Dict[str, str] = None) -> Dict[str, str]:
    """Read every ``usim/**/*.py`` below ``root``; ``overlay`` replaces file contents"""
    root = root or REPO_ROOT
    sources = {}
    pkg = os.path.join(root, PACKAGE)
    if not os.path.isdir(pkg):
        raise AnalysisError('package directory %s not found' % pkg)
    for base, dirs, files in os.walk(pkg):
        dirs[:] = sorted(d for d in dirs if d != '__pycache__')
        for name in sorted(files):
            if name.endswith('.py'):
                path = os.path.join(base, name)
                rel = os.path.relpath(path, root)
                with open(path, encoding='utf-8') as stream:
                    sources[rel] = stream.read()
    if overlay:
        for rel, text in overlay.items():
            sources[rel] = text
    return sources


def module_name(relpath: str) -> str:
    parts = relpath[:-3].split(os.sep)
    if parts[-1] == '__init__':
        parts = parts[:-1]
    return '.'.join(parts)


class FunctionInfo:
    """One function / method / nested function / lambda definition"""
    __slots__ = ('qn', 'name', 'module', 'cls', 'node', 'kind', 'decorators',
                 'parent', 'is_property', 'is_static', 'is_classmethod',
                 'is_contextmanager', 'debug_only', 'locals_cache')

    def __init__(self, qn, name, module, cls, node, parent, debug_only):
        self.qn = qn
        self.name = name
        self.module = module  # type: Module
        self.cls = cls  # type: Optional[ClassInfo]
        self.node = node
        self.parent = parent  # type: Optional[FunctionInfo]
        self.debug_only = debug_only
        self.decorators = []
        if not isinstance(node, ast.Lambda):
            for dec in node.decorator_list:
                self.decorators.append(ast.unparse(dec))
        self.is_property = any(
            d == 'property' or d.endswith('.setter') for d in self.decorators)
        self.is_static = 'staticmethod' in self.decorators
        self.is_classmethod = 'classmethod' in self.decorators
        self.is_contextmanager = any(
            d.split('.')[-1] == 'contextmanager' for d in self.decorators)
        self.kind = self._kind()
        self.locals_cache = None

    def _kind(self) -> str:
        node = self.node
        if isinstance(node, ast.Lambda):
            return 'lambda'
        has_yield = _contains_yield(node)
        if isinstance(node, ast.AsyncFunctionDef):
            return 'asyncgen' if has_yield else 'coroutine'
        if has_yield:
            if self.is_contextmanager:
                return 'ctxgen'
            return 'generator'
        return 'sync'

    @property
    def lineno(self):
        return self.node.lineno

    @property
    def where(self):
        return '%s:%d' % (self.module.relpath, self.node.lineno)

    def __repr__(self):
        return '<fn %s %s>' % (self.qn, self.kind)


def _contains_yield(fnode) -> bool:
    """whether the function body itself (not nested functions) contains yield"""
    stack = list(fnode.body)
    while stack:
        node = stack.pop()
        if isinstance(node, (ast.Yield, ast.YieldFrom)):
            return True
        if isinstance(node, (ast.FunctionDef, ast.AsyncFunctionDef, ast.Lambda,
                             ast.ClassDef)):
            continue
        stack.extend(ast.iter_child_nodes(node))
    return False


class ClassInfo:
    __slots__ = ('qn', 'name', 'module', 'node', 'base_exprs', 'bases', 'mro',
                 'methods', 'attrs', 'annotations', 'metaclass', 'parent_fn',
                 'slots', 'debug_methods')

    def __init__(self, qn, name, module, node, parent_fn=None):
        self.qn = qn
        self.name = name
        self.module = module
        self.node = node
        self.base_exprs = list(node.bases)
        self.bases = []  # resolved later: list of class qn / 'ext:<name>'
        self.mro = []  # list of qn / 'ext:<name>'
        self.methods = {}  # type: Dict[str, FunctionInfo]
        self.attrs = {}  # class level assignments name -> ast expr
        self.annotations = {}  # class level annotations name -> ast expr
        self.metaclass = None
        self.parent_fn = parent_fn
        self.slots = None
        self.debug_methods = set()
        for kw in node.keywords:
            if kw.arg == 'metaclass':
                self.metaclass = kw.value

    def __repr__(self):
        return '<class %s>' % self.qn


class Module:
    __slots__ = ('name', 'relpath', 'source', 'tree', 'bindings', 'is_package',
                 'assigns', 'program')

    def __init__(self, name, relpath, source):
        self.name = name
        self.relpath = relpath
        self.source = source
        try:
            self.tree = ast.parse(source, filename=relpath, type_comments=True)
            desugar(self.tree)
            for node in ast.walk(self.tree):
                if isinstance(node, ast.comprehension):
                    # generator clauses carry no position of their own
                    for attr in ('lineno', 'col_offset', 'end_lineno', 'end_col_offset'):
                        setattr(node, attr, getattr(node.iter, attr, None))
        except SyntaxError as err:
            raise AnalysisError('cannot parse %s: %s' % (relpath, err))
        self.bindings = {}  # name -> binding tuple
        self.assigns = {}  # name -> [(value expr or None, stmt)] module level
        self.is_package = relpath.endswith('__init__.py')
        self.program = None

    @property
    def package(self) -> str:
        if self.is_package:
            return self.name
        return self.name.rpartition('.')[0]

    def __repr__(self):
        return '<module %s>' % self.name


def _is_debug_test(test) -> bool:
    return isinstance(test, ast.Name) and test.id == '__debug__'


class Program:
    """
    All modules, classes and functions of the package with resolved names

    Bindings are tuples:
      ('class', qn) ('func', qn) ('module', name) ('import', module, attr)
      ('extmodule', name) ('ext', dotted) ('assign', name, module) ('unknown',)
    """

    def __init__(self, sources: Dict[str, str]):
        self.sources = sources
        self.modules = {}  # type: Dict[str, Module]
        self.classes = {}  # type: Dict[str, ClassInfo]
        self.functions = {}  # type: Dict[str, FunctionInfo]
        self.node_fn = {}  # id(ast function node) -> FunctionInfo
        self.debug_blocks = []  # (module, ast.If) for `if __debug__:`
        self.parents = {}  # id(node) -> parent node (per module lazily)
        for relpath, source in sorted(sources.items()):
            module = Module(module_name(relpath), relpath, source)
            module.program = self
            self.modules[module.name] = module
        for module in self.modules.values():
            self._collect_module(module)
        for cls in list(self.classes.values()):
            self._resolve_bases(cls)
        for cls in list(self.classes.values()):
            cls.mro = self._c3(cls.qn)
        self._subclasses = {}
        for cls in self.classes.values():
            for base in cls.mro[1:]:
                self._subclasses.setdefault(base, []).append(cls.qn)

    @classmethod
    def load(cls, root: str = None, overlay: Dict[str, str] = None) -> 'Program':
        return cls(read_sources(root, overlay))

    # -- collection ---------------------------------------------------------
    def _collect_module(self, module: Module):
        self._collect_body(module, module.tree.body, scope_qn=module.name,
                           cls=None, fn=None, debug=False, toplevel=True)

    def _collect_body(self, module, body, scope_qn, cls, fn, debug, toplevel):
        for stmt in body:
            self._collect_stmt(module, stmt, scope_qn, cls, fn, debug, toplevel)

    def _bind(self, module, cls, fn, toplevel, name, binding):
        if toplevel and cls is None and fn is None:
            module.bindings[name] = binding

    def _collect_stmt(self, module, stmt, scope_qn, cls, fn, debug, toplevel):
        if isinstance(stmt, (ast.FunctionDef, ast.AsyncFunctionDef)):
            self._collect_function(module, stmt, scope_qn, cls, fn, debug, toplevel)
        elif isinstance(stmt, ast.ClassDef):
            qn = '%s.%s' % (scope_qn, stmt.name)
            info = ClassInfo(qn, stmt.name, module, stmt, parent_fn=fn)
            self.classes[qn] = info
            self._bind(module, cls, fn, toplevel, stmt.name, ('class', qn))
            self._collect_body(module, stmt.body, qn, info, fn, debug, toplevel)
        elif isinstance(stmt, ast.If):
            is_debug = _is_debug_test(stmt.test)
            if is_debug:
                self.debug_blocks.append((module, stmt, cls))
            self._collect_body(module, stmt.body, scope_qn, cls, fn,
                               debug or is_debug, toplevel)
            self._collect_body(module, stmt.orelse, scope_qn, cls, fn, debug, toplevel)
        elif isinstance(stmt, ast.Try):
            for part in (stmt.body, stmt.orelse, stmt.finalbody):
                self._collect_body(module, part, scope_qn, cls, fn, debug, toplevel)
            for handler in stmt.handlers:
                self._collect_body(module, handler.body, scope_qn, cls, fn, debug,
                                   toplevel)
        elif isinstance(stmt, (ast.For, ast.AsyncFor, ast.While)):
            self._collect_body(module, stmt.body, scope_qn, cls, fn, debug, toplevel)
            self._collect_body(module, stmt.orelse, scope_qn, cls, fn, debug, toplevel)
            self._collect_lambdas(module, stmt, scope_qn, cls, fn, debug, only_header=True)
        elif isinstance(stmt, (ast.With, ast.AsyncWith)):
            self._collect_body(module, stmt.body, scope_qn, cls, fn, debug, toplevel)
            self._collect_lambdas(module, stmt, scope_qn, cls, fn, debug, only_header=True)
        elif isinstance(stmt, ast.Import):
            for alias in stmt.names:
                name = alias.asname or alias.name.split('.')[0]
                target = alias.name if alias.asname else alias.name.split('.')[0]
                if target.split('.')[0] == PACKAGE:
                    self._bind(module, cls, fn, toplevel, name, ('module', target))
                else:
                    self._bind(module, cls, fn, toplevel, name, ('extmodule', target))
        elif isinstance(stmt, ast.ImportFrom):
            base = self._import_base(module, stmt)
            for alias in stmt.names:
                name = alias.asname or alias.name
                if base is None:
                    self._bind(module, cls, fn, toplevel, name,
                               ('ext', '%s.%s' % (stmt.module, alias.name)))
                else:
                    self._bind(module, cls, fn, toplevel, name,
                               ('import', base, alias.name))
        else:
            if isinstance(stmt, ast.Assign):
                for target in stmt.targets:
                    self._collect_assign(module, cls, fn, toplevel, target, stmt.value,
                                         stmt)
            elif isinstance(stmt, ast.AnnAssign):
                if cls is not None and fn is None and isinstance(stmt.target, ast.Name):
                    cls.annotations[stmt.target.id] = stmt.annotation
                if stmt.value is not None:
                    self._collect_assign(module, cls, fn, toplevel, stmt.target,
                                         stmt.value, stmt)
                elif toplevel and cls is None and fn is None and \
                        isinstance(stmt.target, ast.Name):
                    module.bindings.setdefault(stmt.target.id, ('unknown',))
            self._collect_lambdas(module, stmt, scope_qn, cls, fn, debug)

    def _collect_assign(self, module, cls, fn, toplevel, target, value, stmt):
        if isinstance(target, ast.Name):
            if cls is not None and fn is None:
                cls.attrs[target.id] = value
                if target.id == '__slots__':
                    cls.slots = value
                # `name = property(_getter)`: a property whose getter is a method defined
                # above (the decorator form written out)
                if isinstance(value, ast.Call) and isinstance(value.func, ast.Name) and \
                        value.func.id == 'property' and len(value.args) == 1 and \
                        not value.keywords and isinstance(value.args[0], ast.Name) and \
                        value.args[0].id in cls.methods and target.id not in cls.methods:
                    getter = cls.methods[value.args[0].id]
                    qn = '%s.%s' % (cls.qn, target.id)
                    if qn not in self.functions:
                        view = FunctionInfo(qn, target.id, module, cls, getter.node,
                                            getter.parent, getter.debug_only)
                        view.is_property = True
                        cls.methods[target.id] = view
                        self.functions[qn] = view
                        del cls.attrs[target.id]
            elif toplevel and cls is None and fn is None:
                module.assigns.setdefault(target.id, []).append((value, stmt))
                module.bindings[target.id] = ('assign', target.id, module.name)
        elif isinstance(target, (ast.Tuple, ast.List)):
            for elt in target.elts:
                self._collect_assign(module, cls, fn, toplevel, elt, None, stmt)

    def _collect_function(self, module, node, scope_qn, cls, fn, debug, toplevel):
        qn = '%s.%s' % (scope_qn, node.name)
        # a property setter/second definition of the same name gets a suffix
        if qn in self.functions:
            qn = '%s@%d' % (qn, node.lineno)
        info = FunctionInfo(qn, node.name, module, cls, node, fn, debug)
        if cls is not None:
            # a debug-only definition never shadows a regular one
            if node.name not in cls.methods or not info.debug_only:
                cls.methods[node.name] = info
            if debug:
                cls.debug_methods.add(node.name)
        elif fn is None:
            self._bind(module, cls, fn, toplevel, node.name, ('func', qn))
        self.functions[qn] = info
        self.node_fn[id(node)] = info
        inner_scope = qn + '.<locals>'
        self._collect_body(module, node.body, inner_scope, None, info, debug, False)
        # lambdas in defaults / decorators
        for default in list(node.args.defaults) + [d for d in node.args.kw_defaults if d]:
            self._collect_lambdas(module, default, scope_qn, cls, fn, debug)

    def _collect_lambdas(self, module, stmt, scope_qn, cls, fn, debug, only_header=False):
        if only_header:
            roots = []
            if isinstance(stmt, (ast.For, ast.AsyncFor)):
                roots = [stmt.iter]
            elif isinstance(stmt, ast.While):
                roots = [stmt.test]
            elif isinstance(stmt, (ast.With, ast.AsyncWith)):
                roots = [item.context_expr for item in stmt.items]
        else:
            roots = [stmt]
        stack = list(roots)
        while stack:
            node = stack.pop()
            if isinstance(node, ast.Lambda):
                qn = '%s.<lambda>@%d:%d' % (scope_qn, node.lineno, node.col_offset)
                info = FunctionInfo(qn, '<lambda>', module, None, node, fn, debug)
                self.functions[qn] = info
                self.node_fn[id(node)] = info
            if isinstance(node, (ast.FunctionDef, ast.AsyncFunctionDef, ast.ClassDef)) \
                    and node is not stmt:
                continue
            stack.extend(ast.iter_child_nodes(node))

    def _import_base(self, module: Module, stmt: ast.ImportFrom) -> Optional[str]:
        """absolute module name of ``from X import`` or None for external modules"""
        if stmt.level:
            parts = module.package.split('.')
            if stmt.level > 1:
                parts = parts[:len(parts) - (stmt.level - 1)]
            base = '.'.join(parts)
            if stmt.module:
                base = '%s.%s' % (base, stmt.module)
            return base
        if stmt.module and stmt.module.split('.')[0] == PACKAGE:
            return stmt.module
        return None

    # -- name resolution ----------------------------------------------------
    def resolve_binding(self, binding, seen=None):
        """Follow imports until a class/func/module/assign/ext binding is reached"""
        seen = seen or set()
        while binding[0] == 'import':
            _, modname, attr = binding
            key = (modname, attr)
            if key in seen:
                return ('unknown',)
            seen.add(key)
            sub = '%s.%s' % (modname, attr)
            module = self.modules.get(modname)
            if module is not None and attr in module.bindings:
                binding = module.bindings[attr]
            elif sub in self.modules:
                return ('module', sub)
            else:
                return ('unknown',)
        return binding

    def lookup(self, module: Module, name: str):
        """binding of a global name in ``module`` (resolved) or builtin"""
        if name in module.bindings:
            return self.resolve_binding(module.bindings[name])
        if hasattr(builtins, name):
            return ('ext', 'builtins.%s' % name)
        return ('unknown',)

    def resolve_dotted(self, module: Module, expr) -> Tuple:
        """Resolve Name / Attribute chains to a binding where statically possible"""
        if isinstance(expr, ast.Name):
            return self.lookup(module, expr.id)
        if isinstance(expr, ast.Attribute):
            base = self.resolve_dotted(module, expr.value)
            if base[0] == 'module':
                target = self.modules.get(base[1])
                if target is not None and expr.attr in target.bindings:
                    return self.resolve_binding(target.bindings[expr.attr])
                sub = '%s.%s' % (base[1], expr.attr)
                if sub in self.modules:
                    return ('module', sub)
                return ('unknown',)
            if base[0] == 'extmodule':
                return ('ext', '%s.%s' % (base[1], expr.attr))
            if base[0] == 'ext':
                return ('ext', '%s.%s' % (base[1], expr.attr))
            if base[0] == 'class':
                cls = self.classes[base[1]]
                found = self.find_method(cls.qn, expr.attr)
                if found is not None:
                    return ('func', found.qn)
                attr = self.find_class_attr(cls.qn, expr.attr)
                if attr is not None:
                    return ('classattr', attr[0], expr.attr)
            return ('unknown',)
        if isinstance(expr, ast.Subscript):
            # Generic[T] / Event[V] ...
            return self.resolve_dotted(module, expr.value)
        return ('unknown',)

    # -- classes ------------------------------------------------------------
    def _resolve_bases(self, cls: ClassInfo):
        for expr in cls.base_exprs:
            if isinstance(expr, ast.IfExp):
                # enum.Flag if hasattr(enum, 'Flag') else enum.IntEnum
                expr = expr.body
            binding = self.resolve_dotted(cls.module, expr)
            if binding[0] == 'class':
                cls.bases.append(binding[1])
            elif binding[0] == 'ext':
                name = binding[1]
                if name.startswith('builtins.'):
                    name = name[len('builtins.'):]
                if name.split('.')[-1] in ('Generic', 'Protocol'):
                    continue
                cls.bases.append('ext:' + name)
            else:
                cls.bases.append('ext:?' + ast.unparse(expr))

    def _c3(self, qn: str) -> List[str]:
        if qn.startswith('ext:'):
            return [qn] + _ext_mro(qn[4:])
        cls = self.classes[qn]
        seqs = [self._c3(base) for base in cls.bases] + [list(cls.bases)]
        result = [qn]
        seqs = [list(s) for s in seqs if s]
        while seqs:
            for seq in seqs:
                head = seq[0]
                if not any(head in other[1:] for other in seqs):
                    break
            else:
                raise AnalysisError('inconsistent MRO for %s' % qn)
            result.append(head)
            seqs = [[x for x in s if x != head] for s in seqs]
            seqs = [s for s in seqs if s]
        if 'ext:object' not in result:
            result.append('ext:object')
        return result

    def get_class(self, qn: str) -> ClassInfo:
        try:
            return self.classes[qn]
        except KeyError:
            raise AnalysisError('anchor class %s not found' % qn)

    def get_function(self, qn: str) -> FunctionInfo:
        try:
            return self.functions[qn]
        except KeyError:
            raise AnalysisError('anchor function %s not found' % qn)

    def find_method(self, cls_qn: str, name: str, after: str = None) \
            -> Optional[FunctionInfo]:
        """method ``name`` by MRO of ``cls_qn``; ``after``: start behind that class"""
        cls = self.classes.get(cls_qn)
        if cls is None:
            return None
        mro = cls.mro
        if after is not None:
            if after not in mro:
                return None
            mro = mro[mro.index(after) + 1:]
        for entry in mro:
            info = self.classes.get(entry)
            if info is None:
                continue
            if name in info.methods:
                return info.methods[name]
            if name in info.attrs:
                # alias such as  __iter__ = __await__
                value = info.attrs[name]
                if isinstance(value, ast.Name) and value.id in info.methods:
                    return info.methods[value.id]
                return None
        return None

    def find_class_attr(self, cls_qn: str, name: str):
        cls = self.classes.get(cls_qn)
        if cls is None:
            return None
        for entry in cls.mro:
            info = self.classes.get(entry)
            if info is None:
                continue
            if name in info.attrs:
                return entry, info.attrs[name]
        return None

    def is_subclass(self, sub: str, sup: str) -> bool:
        """class qn / 'ext:name' subclass test (reflexive)"""
        if sub == sup:
            return True
        if sub in self.classes:
            return sup in self.classes[sub].mro
        if sub.startswith('ext:'):
            return sup in ([sub] + _ext_mro(sub[4:]))
        return False

    def subclasses(self, qn: str) -> List[str]:
        """all strict subclasses (transitively)"""
        return list(self._subclasses.get(qn, ()))

    def concrete_receivers(self, qn: str) -> List[str]:
        return [qn] + self.subclasses(qn)

    # -- helpers ------------------------------------------------------------
    def class_of_function(self, fn: FunctionInfo) -> Optional[ClassInfo]:
        return fn.cls

    def enclosing_self_class(self, fn: FunctionInfo) -> Optional[ClassInfo]:
        """class whose ``self`` is visible in ``fn`` (method or nested in a method)"""
        cur = fn
        while cur is not None:
            if cur.cls is not None:
                return cur.cls
            cur = cur.parent
        return None

    def functions_in(self, relpath_or_module: str) -> List[FunctionInfo]:
        return [f for f in self.functions.values()
                if f.module.relpath == relpath_or_module
                or f.module.name == relpath_or_module]

    def all_handlers(self):
        """(function-or-None, module, ast.Try, ast.ExceptHandler) for every handler"""
        result = []
        for module in self.modules.values():
            for node in ast.walk(module.tree):
                if isinstance(node, ast.Try):
                    for handler in node.handlers:
                        result.append((module, node, handler))
        return result

    def parent_map(self, module: Module) -> Dict[int, ast.AST]:
        key = module.name
        if key not in self.parents:
            mapping = {}
            for node in ast.walk(module.tree):
                for child in ast.iter_child_nodes(node):
                    mapping[id(child)] = node
            self.parents[key] = mapping
        return self.parents[key]

    def enclosing_function(self, module: Module, node) -> Optional[FunctionInfo]:
        parents = self.parent_map(module)
        cur = parents.get(id(node))
        while cur is not None:
            if id(cur) in self.node_fn:
                return self.node_fn[id(cur)]
            cur = parents.get(id(cur))
        return None


def _ext_mro(name: str) -> List[str]:
    """MRO of an external class as 'ext:' names (builtins are looked up reflectively)"""
    short = name.split('.')[-1]
    obj = getattr(builtins, short, None) if '.' not in name or name.startswith('builtins.') \
        else None
    if isinstance(obj, type):
        return ['ext:' + c.__name__ for c in obj.__mro__[1:]]
    known = {
        'threading.local': ['ext:object'],
        'enum.Flag': ['ext:enum.Enum', 'ext:object'],
        'typing.NamedTuple': ['ext:tuple', 'ext:object'],
        'sortedcontainers.SortedKeyList': ['ext:sortedcontainers.SortedList', 'ext:object'],
        'typing.AsyncIterable': ['ext:object'],
        'typing.Awaitable': ['ext:object'],
    }
    return known.get(name, ['ext:object'])
