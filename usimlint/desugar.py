"""
Syntax normalisation applied to every parsed module before any analysis.

Only rewrites whose result is the same program are made, each under a stated condition:

* ``if (x := E) < 0:``  ->  ``x = E`` followed by ``if x < 0:`` when the assignment
  expression is the first thing the statement evaluates that can have an effect (everything
  evaluated before it is a local name or a constant, or an attribute chain when ``E``
  itself calls nothing).  The same for ``return``, expression statements (``yield (x :=
  E)``), assignments, ``raise``, ``for ... in`` and ``with`` headers.  An ``elif`` is the
  ``if`` statement alone in an ``else`` block, so the assignment lands in that block.

* ``map(f, xs)`` -> ``(f(x) for x in xs)``, ``filter(f, xs)`` / ``filterfalse(f, xs)`` ->
  ``(x for x in xs if [not] f(x))`` for ``f`` a name or attribute chain (``operator.invert``
  etc. named through this module's imports become the operator itself, ``bool``/``None``
  the truth of the element); ``map``/``filter`` must not be re-bound in the module.  Both
  sides are lazy iterators applying the function to each element in order.

* ``for v in (E for x in S if C): body``  ->  ``for x in S: if C: v = E; body``: a generator
  expression is consumed lazily, element by element, which is what the fused loop does
  (only when ``x`` is used nowhere else in the function).

* ``it = iter(E)`` directly followed by ``while True: v = next(it, S); if v is S: break;
  body`` (``it`` used nowhere else, ``S`` a name)  ->  ``for v in E: body``: the iterator
  protocol written out.

* a nested function ``def f(p, q)`` that its enclosing function uses exactly once, calling
  it as ``f(a, b)`` with plain names that the enclosing function binds only once (its
  parameters, never re-assigned)  ->  the closure ``def f()`` reading ``a`` and ``b``
  directly: the call binds ``p`` to the one value ``a`` ever has.

* a private module level function whose every use is a call ``f(self, ...)`` from methods
  of one class gets its first parameter renamed to ``self``: it is a method of that class
  written outside of it, and reads the same as the method would.

* module level ``f = operator.attrgetter('a.b')`` / ``itemgetter(i)`` /
  ``methodcaller('m', x, k=v)`` (bound once, the factory named through this module's
  imports of :py:mod:`operator`): a call ``f(obj)`` is ``obj.a.b`` / ``obj[i]`` /
  ``obj.m(x, k=v)``; ``attrgetter('a', 'b')(obj)`` is ``(obj.a, obj.b)``; ``map(f, xs)`` is
  normalised first.

Assignment expressions elsewhere (second operand of ``and``/``or``, comprehensions,
``while`` tests, ``assert``) stay as they are and are interpreted by the path engine.
"""
import ast

_EFFECTS = (ast.Call, ast.Await, ast.Yield, ast.YieldFrom, ast.NamedExpr)


def _has_effects(expr) -> bool:
    return any(isinstance(node, _EFFECTS) for node in ast.walk(expr))


def _simple(expr, calls_nothing: bool) -> bool:
    if isinstance(expr, (ast.Name, ast.Constant)):
        return True
    if calls_nothing and isinstance(expr, ast.Attribute):
        return _simple(expr.value, calls_nothing)
    return False


class _Found(Exception):
    def __init__(self, parent, field, index, node):
        self.parent, self.field, self.index, self.node = parent, field, index, node


class _Stop(Exception):
    """evaluation reached something with an effect before any assignment expression"""


def _first(parent, field, index, expr):
    """
    walk ``expr`` in evaluation order: raise _Found at the first assignment expression,
    _Stop once anything other than a name, constant or attribute read has been evaluated
    """
    if isinstance(expr, ast.NamedExpr):
        raise _Found(parent, field, index, expr)
    if isinstance(expr, (ast.Name, ast.Constant)):
        return
    if isinstance(expr, ast.Attribute):
        _first(expr, 'value', None, expr.value)
        return
    if isinstance(expr, (ast.Tuple, ast.List, ast.Set)):
        for position, elt in enumerate(expr.elts):
            _first(expr, 'elts', position, elt)
        return
    if isinstance(expr, ast.Compare):
        _first(expr, 'left', None, expr.left)
        _first(expr, 'comparators', 0, expr.comparators[0])
    elif isinstance(expr, ast.BinOp):
        _first(expr, 'left', None, expr.left)
        _first(expr, 'right', None, expr.right)
    elif isinstance(expr, ast.BoolOp):
        _first(expr, 'values', 0, expr.values[0])
    elif isinstance(expr, ast.UnaryOp):
        _first(expr, 'operand', None, expr.operand)
    elif isinstance(expr, ast.IfExp):
        _first(expr, 'test', None, expr.test)
    elif isinstance(expr, (ast.Yield, ast.YieldFrom, ast.Await, ast.Starred)):
        if expr.value is not None:
            _first(expr, 'value', None, expr.value)
    elif isinstance(expr, ast.Subscript):
        _first(expr, 'value', None, expr.value)
        _first(expr, 'slice', None, expr.slice)
    elif isinstance(expr, ast.Call):
        _first(expr, 'func', None, expr.func)
        for position, arg in enumerate(expr.args):
            _first(expr, 'args', position, arg)
        for keyword in expr.keywords:
            _first(keyword, 'value', None, keyword.value)
    raise _Stop()


_HEADERS = {
    ast.If: 'test', ast.Return: 'value', ast.Expr: 'value', ast.Assign: 'value',
    ast.AugAssign: 'value', ast.AnnAssign: 'value', ast.Raise: 'exc', ast.For: 'iter',
    ast.AsyncFor: 'iter',
}


def _hoist_one(stmt):
    """the assignment statement hoisted out of ``stmt``'s header, or None"""
    if isinstance(stmt, (ast.With, ast.AsyncWith)):
        parent, field, index = stmt.items[0], 'context_expr', None
    else:
        field = _HEADERS.get(type(stmt))
        if field is None:
            return None
        parent, index = stmt, None
    expr = getattr(parent, field)
    if expr is None:
        return None
    if isinstance(expr, ast.NamedExpr) and isinstance(stmt, ast.Expr):
        return None
    try:
        _first(parent, field, index, expr)
    except _Stop:
        return None
    except _Found as found:
        walrus = found.node
        if not isinstance(walrus.target, ast.Name):
            return None
        # what was evaluated before the walrus: attribute reads are only passed when the
        # assigned value calls nothing
        if _passed_attribute(expr, walrus) and _has_effects(walrus.value):
            return None
        load = ast.copy_location(ast.Name(id=walrus.target.id, ctx=ast.Load()), walrus)
        if found.index is None:
            setattr(found.parent, found.field, load)
        else:
            getattr(found.parent, found.field)[found.index] = load
        assign = ast.Assign(targets=[ast.copy_location(
            ast.Name(id=walrus.target.id, ctx=ast.Store()), walrus.target)],
            value=walrus.value, type_comment=None)
        ast.copy_location(assign, walrus)
        assign.desugared_from = walrus
        return assign
    return None


def _passed_attribute(expr, walrus) -> bool:
    """whether an attribute read is evaluated before ``walrus`` inside ``expr``"""
    seen = []

    def visit(node):
        if node is walrus:
            return True
        if isinstance(node, ast.Attribute):
            # its value is evaluated first, the read itself afterwards
            if visit(node.value):
                return True
            seen.append(node)
            return False
        if isinstance(node, (ast.Lambda, ast.ListComp, ast.SetComp, ast.DictComp,
                             ast.GeneratorExp)):
            return False
        for child in ast.iter_child_nodes(node):
            if visit(child):
                return True
        return False

    visit(expr)
    return bool(seen)


def _rewrite_body(body):
    result = []
    for stmt in body:
        while True:
            hoisted = _hoist_one(stmt)
            if hoisted is None:
                break
            result.append(hoisted)
        result.append(stmt)
    return result


_UNARY = {'invert': ast.Invert, '__invert__': ast.Invert, 'inv': ast.Invert,
          'neg': ast.USub, '__neg__': ast.USub, 'not_': ast.Not, '__not__': ast.Not}


def _operator_imports(tree):
    """(names bound to unary functions of `operator`, names bound to the module itself,
    names re-bound somewhere in the module among map/filter/bool, names bound to
    itertools.filterfalse)"""
    functions, modules, shadowed = {}, set(), set()
    filterfalse = set()
    for node in ast.walk(tree):
        if isinstance(node, ast.ImportFrom) and node.module == 'operator' and not node.level:
            for alias in node.names:
                if alias.name in _UNARY:
                    functions[alias.asname or alias.name] = _UNARY[alias.name]
        elif isinstance(node, ast.ImportFrom) and node.module == 'itertools' and \
                not node.level:
            for alias in node.names:
                if alias.name == 'filterfalse':
                    filterfalse.add(alias.asname or alias.name)
        elif isinstance(node, ast.Import):
            for alias in node.names:
                if alias.name == 'operator':
                    modules.add(alias.asname or 'operator')
    # names re-bound at module level hide the builtin everywhere in the module; inside a
    # function (parameters, local stores) only there: see _MapToGenerator.visit_FunctionDef
    shadowed |= _bound_in(tree)
    return functions, modules, shadowed, filterfalse


def _bound_in(scope) -> set:
    """which of map/filter/bool are bound directly in this module / function scope"""
    found = set()
    todo = list(ast.iter_child_nodes(scope))
    if isinstance(scope, (ast.FunctionDef, ast.AsyncFunctionDef, ast.Lambda)):
        args = scope.args
        for arg in args.posonlyargs + args.args + args.kwonlyargs + \
                [a for a in (args.vararg, args.kwarg) if a is not None]:
            if arg.arg in _BUILTINS:
                found.add(arg.arg)
    while todo:
        node = todo.pop()
        if isinstance(node, (ast.FunctionDef, ast.AsyncFunctionDef, ast.ClassDef)):
            if node.name in _BUILTINS:
                found.add(node.name)
            continue  # an inner scope of its own
        if isinstance(node, ast.Lambda):
            continue
        if isinstance(node, ast.Name) and node.id in _BUILTINS and \
                isinstance(node.ctx, (ast.Store, ast.Del)):
            found.add(node.id)
        elif isinstance(node, (ast.Import, ast.ImportFrom)):
            for alias in node.names:
                if (alias.asname or alias.name).split('.')[0] in _BUILTINS:
                    found.add((alias.asname or alias.name).split('.')[0])
        elif isinstance(node, (ast.Global, ast.Nonlocal)):
            found.update(n for n in node.names if n in _BUILTINS)
        todo.extend(ast.iter_child_nodes(node))
    return found


_BUILTINS = ('map', 'filter', 'bool')


class _MapToGenerator(ast.NodeTransformer):
    """``map(f, xs)`` -> ``(f(x) for x in xs)``, ``filter(f, xs)`` -> ``(x for x in xs if
    f(x))``, ``filterfalse(f, xs)`` -> ``(x for x in xs if not f(x))``: the same lazy
    iterators, for ``f`` a name or an attribute chain (looked up per element instead of
    once: the same function unless it is re-bound while the iterator is consumed)"""

    def __init__(self, functions, modules, shadowed, filterfalse):
        self.functions, self.modules = functions, modules
        self.shadowed, self.filterfalse, self.count = shadowed, filterfalse, 0

    def _unary(self, func):
        if isinstance(func, ast.Name):
            return self.functions.get(func.id)
        if isinstance(func, ast.Attribute) and isinstance(func.value, ast.Name) and \
                func.value.id in self.modules:
            return _UNARY.get(func.attr)
        return None

    def visit_FunctionDef(self, node):
        saved = self.shadowed
        self.shadowed = saved | _bound_in(node)
        try:
            return self.generic_visit(node)
        finally:
            self.shadowed = saved

    visit_AsyncFunctionDef = visit_Lambda = visit_FunctionDef

    def visit_ClassDef(self, node):
        # names bound in a class body are not visible in its methods
        return self.generic_visit(node)

    @staticmethod
    def _plain(func) -> bool:
        while isinstance(func, ast.Attribute):
            func = func.value
        return isinstance(func, ast.Name)

    def _apply(self, func, var, node):
        """expression for ``func(var)``"""
        operand = ast.Name(id=var, ctx=ast.Load())
        op = self._unary(func)
        if op is not None:
            return ast.UnaryOp(op=op(), operand=operand)
        if isinstance(func, ast.Name) and func.id == 'bool' and 'bool' not in self.shadowed:
            return None  # truth of the element itself
        if self._plain(func):
            return ast.Call(func=func, args=[operand], keywords=[])
        return False

    def visit_Call(self, node):
        node = self.generic_visit(node)
        if not (isinstance(node.func, ast.Name) and len(node.args) == 2 and
                not node.keywords and not any(isinstance(a, ast.Starred) for a in node.args)):
            return node
        kind = node.func.id
        if kind in ('map', 'filter'):
            if kind in self.shadowed:
                return node
        elif kind in self.filterfalse:
            kind = 'filterfalse'
        else:
            return node
        func, source = node.args
        used = {n.id for n in ast.walk(node) if isinstance(n, ast.Name)}
        var = 'x_'
        while var in used:
            var += '_'
        if kind != 'map' and isinstance(func, ast.Constant) and func.value is None:
            applied = None
        else:
            applied = self._apply(func, var, node)
            if applied is False:
                return node
        element = ast.Name(id=var, ctx=ast.Load())
        if kind == 'map':
            if applied is None:
                applied = ast.Call(func=func, args=[element], keywords=[])
            elt, ifs = applied, []
        else:
            test = applied if applied is not None else ast.Name(id=var, ctx=ast.Load())
            if kind == 'filterfalse':
                test = ast.UnaryOp(op=ast.Not(), operand=test)
            elt, ifs = element, [test]
        comp = ast.comprehension(target=ast.Name(id=var, ctx=ast.Store()), iter=source,
                                 ifs=ifs, is_async=0)
        new = ast.GeneratorExp(elt=elt, generators=[comp])
        for fresh in ast.walk(new):
            if isinstance(fresh, ast.expr) and not hasattr(fresh, 'lineno'):
                ast.copy_location(fresh, node)
        self.count += 1
        return new


def _fuse_generator_loops(tree) -> int:
    count = 0
    for scope in ast.walk(tree):
        if not isinstance(scope, (ast.FunctionDef, ast.AsyncFunctionDef)):
            continue
        for loop in [n for n in ast.walk(scope) if isinstance(n, ast.For)]:
            gen = loop.iter
            if not (isinstance(gen, ast.GeneratorExp) and len(gen.generators) == 1):
                continue
            comp = gen.generators[0]
            if comp.is_async or not isinstance(comp.target, ast.Name):
                continue
            var = comp.target.id
            inside = {id(n) for n in ast.walk(gen)}
            if any(isinstance(n, ast.Name) and n.id == var and id(n) not in inside
                   for n in ast.walk(scope)) or any(
                    isinstance(n, ast.arg) and n.arg == var for n in ast.walk(scope)):
                continue
            if any(isinstance(n, (ast.Yield, ast.YieldFrom, ast.Await, ast.NamedExpr))
                   for n in ast.walk(gen)):
                continue
            body = list(loop.body)
            if not (isinstance(loop.target, ast.Name) and isinstance(gen.elt, ast.Name)
                    and loop.target.id == gen.elt.id):
                bind = ast.Assign(targets=[loop.target], value=gen.elt, type_comment=None)
                ast.copy_location(bind, loop)
                body.insert(0, bind)
            for cond in reversed(comp.ifs):
                guard = ast.If(test=cond, body=body, orelse=[])
                ast.copy_location(guard, loop)
                body = [guard]
            loop.target = ast.copy_location(ast.Name(id=var, ctx=ast.Store()), comp.target)
            loop.iter = comp.iter
            loop.body = body
            count += 1
    return count


def _fuse_iterator_loops(tree) -> int:
    count = 0
    for scope in ast.walk(tree):
        if not isinstance(scope, (ast.FunctionDef, ast.AsyncFunctionDef)):
            continue
        uses = {}
        for node in ast.walk(scope):
            if isinstance(node, ast.Name):
                uses[node.id] = uses.get(node.id, 0) + 1
        for owner in ast.walk(scope):
            for field in ('body', 'orelse', 'finalbody'):
                block = getattr(owner, field, None)
                if not isinstance(block, list):
                    continue
                index = 0
                while index + 1 < len(block):
                    first, loop = block[index], block[index + 1]
                    fused = _iterator_loop(first, loop, uses)
                    if fused is not None:
                        block[index:index + 2] = [fused]
                        count += 1
                    index += 1
    return count


def _iterator_loop(first, loop, uses):
    if not (isinstance(first, ast.Assign) and len(first.targets) == 1
            and isinstance(first.targets[0], ast.Name)
            and isinstance(first.value, ast.Call) and isinstance(first.value.func, ast.Name)
            and first.value.func.id == 'iter' and len(first.value.args) == 1
            and not first.value.keywords):
        return None
    name = first.targets[0].id
    if not (isinstance(loop, ast.While) and not loop.orelse
            and isinstance(loop.test, ast.Constant) and loop.test.value is True
            and len(loop.body) >= 2 and uses.get(name) == 2):
        return None
    take, leave = loop.body[0], loop.body[1]
    if not (isinstance(take, ast.Assign) and len(take.targets) == 1
            and isinstance(take.targets[0], ast.Name)
            and isinstance(take.value, ast.Call) and isinstance(take.value.func, ast.Name)
            and take.value.func.id == 'next' and len(take.value.args) == 2
            and not take.value.keywords and isinstance(take.value.args[0], ast.Name)
            and take.value.args[0].id == name and isinstance(take.value.args[1], ast.Name)):
        return None
    item, sentinel = take.targets[0].id, take.value.args[1].id
    if not (isinstance(leave, ast.If) and not leave.orelse and len(leave.body) == 1
            and isinstance(leave.body[0], ast.Break) and isinstance(leave.test, ast.Compare)
            and len(leave.test.ops) == 1 and isinstance(leave.test.ops[0], ast.Is)
            and isinstance(leave.test.left, ast.Name) and leave.test.left.id == item
            and isinstance(leave.test.comparators[0], ast.Name)
            and leave.test.comparators[0].id == sentinel):
        return None
    fused = ast.For(target=ast.copy_location(ast.Name(id=item, ctx=ast.Store()), take),
                    iter=first.value.args[0],
                    body=loop.body[2:] or [ast.copy_location(ast.Pass(), loop)],
                    orelse=[], type_comment=None)
    return ast.copy_location(fused, loop)


def _close_over_arguments(tree) -> int:
    count = 0
    for outer in ast.walk(tree):
        if not isinstance(outer, (ast.FunctionDef, ast.AsyncFunctionDef)):
            continue
        nested = [n for n in outer.body if isinstance(n, (ast.FunctionDef,
                                                          ast.AsyncFunctionDef))]
        if not nested:
            continue
        oargs = outer.args
        oparams = {a.arg for a in oargs.posonlyargs + oargs.args + oargs.kwonlyargs}
        stored = {n.id for n in ast.walk(outer) if isinstance(n, ast.Name)
                  and isinstance(n.ctx, (ast.Store, ast.Del))}
        for inner in nested:
            inside = {id(n) for n in ast.walk(inner)}
            uses = [n for n in ast.walk(outer) if isinstance(n, ast.Name)
                    and n.id == inner.name and id(n) not in inside]
            calls = [n for n in ast.walk(outer) if isinstance(n, ast.Call)
                     and n.func in uses and id(n) not in inside]
            iargs = inner.args
            if len(uses) != 1 or len(calls) != 1 or iargs.vararg or iargs.kwarg or \
                    iargs.kwonlyargs or iargs.posonlyargs or iargs.defaults or \
                    inner.decorator_list and any(
                        not (isinstance(d, ast.Call) and ast.unparse(d.func).split('.')[-1]
                             == 'wraps') for d in inner.decorator_list):
                continue
            call = calls[0]
            params = [a.arg for a in iargs.args]
            if not params or call.keywords or len(call.args) != len(params) or not all(
                    isinstance(a, ast.Name) and a.id in oparams and a.id not in stored
                    for a in call.args):
                continue
            given = [a.id for a in call.args]
            inner_names = {n.id for n in ast.walk(inner) if isinstance(n, ast.Name)}
            inner_stored = {n.id for n in ast.walk(inner) if isinstance(n, ast.Name)
                            and isinstance(n.ctx, (ast.Store, ast.Del))}
            if set(params) & inner_stored or len(set(given)) != len(given):
                continue
            # the argument name must be free to use inside: not a different local there
            if any(g != p and g in inner_names for g, p in zip(given, params)):
                continue
            if any(isinstance(n, (ast.FunctionDef, ast.AsyncFunctionDef, ast.Lambda,
                                  ast.ClassDef)) and n is not inner
                   for n in ast.walk(inner)):
                continue
            rename = dict(zip(params, given))
            for node in ast.walk(inner):
                if isinstance(node, ast.Name) and node.id in rename:
                    node.id = rename[node.id]
            iargs.args = []
            call.args = []
            count += 1
    return count


def _selfify(tree) -> int:
    count = 0
    if not isinstance(tree, ast.Module):
        return 0
    methods = {}
    for cls in [n for n in tree.body if isinstance(n, ast.ClassDef)]:
        for fn in cls.body:
            if isinstance(fn, (ast.FunctionDef, ast.AsyncFunctionDef)) and fn.args.args \
                    and fn.args.args[0].arg == 'self':
                for node in ast.walk(fn):
                    methods[id(node)] = cls.name
    for fn in [n for n in tree.body if isinstance(n, (ast.FunctionDef, ast.AsyncFunctionDef))]:
        name = fn.name
        if not name.startswith('_') or (name.startswith('__') and name.endswith('__')):
            continue
        args = fn.args
        if args.posonlyargs or not args.args or args.args[0].arg == 'self' or \
                fn.decorator_list:
            continue
        first = args.args[0].arg
        inside = {id(n) for n in ast.walk(fn)}
        if any(isinstance(n, ast.Name) and n.id == 'self' for n in ast.walk(fn)) or any(
                isinstance(n, ast.arg) and n.arg == 'self' for n in ast.walk(fn)):
            continue
        if any(isinstance(n, ast.Name) and n.id == first
               and isinstance(n.ctx, (ast.Store, ast.Del)) for n in ast.walk(fn)):
            continue
        if any(isinstance(n, (ast.FunctionDef, ast.AsyncFunctionDef, ast.Lambda,
                              ast.ClassDef)) and n is not fn for n in ast.walk(fn)):
            continue
        uses = [n for n in ast.walk(tree) if isinstance(n, ast.Name) and n.id == name
                and id(n) not in inside]
        calls = [n for n in ast.walk(tree) if isinstance(n, ast.Call) and n.func in uses]
        owners = {methods.get(id(c)) for c in calls}
        if not uses or len(calls) != len(uses) or len(owners) != 1 or None in owners:
            continue
        if not all(c.args and isinstance(c.args[0], ast.Name) and c.args[0].id == 'self'
                   and not any(kw.arg == first for kw in c.keywords) for c in calls):
            continue
        for node in ast.walk(fn):
            if isinstance(node, ast.Name) and node.id == first:
                node.id = 'self'
        args.args[0].arg = 'self'
        count += 1
    return count


_GETTERS = ('attrgetter', 'itemgetter', 'methodcaller')


def _operator_getters(tree) -> dict:
    """module level name -> (kind, call node) for names bound exactly once, at module level,
    to operator.attrgetter/itemgetter/methodcaller with constant names"""
    if not isinstance(tree, ast.Module):
        return {}
    factories, modules = {}, set()
    for node in ast.walk(tree):
        if isinstance(node, ast.ImportFrom) and node.module == 'operator' and not node.level:
            for alias in node.names:
                if alias.name in _GETTERS:
                    factories[alias.asname or alias.name] = alias.name
        elif isinstance(node, ast.Import):
            for alias in node.names:
                if alias.name == 'operator':
                    modules.add(alias.asname or 'operator')
    stores = {}
    for node in ast.walk(tree):
        if isinstance(node, ast.Name) and isinstance(node.ctx, (ast.Store, ast.Del)):
            stores[node.id] = stores.get(node.id, 0) + 1
        elif isinstance(node, ast.arg):
            stores[node.arg] = stores.get(node.arg, 0) + 2
        elif isinstance(node, (ast.FunctionDef, ast.AsyncFunctionDef, ast.ClassDef)):
            stores[node.name] = stores.get(node.name, 0) + 2
    found = {}
    for stmt in tree.body:
        if not (isinstance(stmt, ast.Assign) and len(stmt.targets) == 1
                and isinstance(stmt.targets[0], ast.Name)
                and isinstance(stmt.value, ast.Call)):
            continue
        name, call = stmt.targets[0].id, stmt.value
        kind = None
        if isinstance(call.func, ast.Name):
            kind = factories.get(call.func.id)
        elif isinstance(call.func, ast.Attribute) and isinstance(call.func.value, ast.Name) \
                and call.func.value.id in modules and call.func.attr in _GETTERS:
            kind = call.func.attr
        if kind is None or stores.get(name) != 1 or not call.args or any(
                isinstance(a, ast.Starred) for a in call.args):
            continue
        if kind == 'attrgetter' and not (not call.keywords and all(
                isinstance(a, ast.Constant) and isinstance(a.value, str) and all(
                    part.isidentifier() for part in a.value.split('.')) for a in call.args)):
            continue
        if kind == 'itemgetter' and (call.keywords or len(call.args) != 1
                                     or not isinstance(call.args[0], ast.Constant)):
            continue
        if kind == 'methodcaller' and not (
                isinstance(call.args[0], ast.Constant) and isinstance(call.args[0].value, str)
                and call.args[0].value.isidentifier() and all(
                    isinstance(a, (ast.Constant, ast.Name)) for a in call.args[1:]) and all(
                    kw.arg is not None and isinstance(kw.value, (ast.Constant, ast.Name))
                    for kw in call.keywords)):
            continue
        found[name] = (kind, call)
    return found


class _ApplyGetters(ast.NodeTransformer):
    def __init__(self, getters):
        self.getters, self.count = getters, 0

    def visit_Call(self, node):
        node = self.generic_visit(node)
        if not (isinstance(node.func, ast.Name) and node.func.id in self.getters
                and len(node.args) == 1 and not node.keywords
                and not isinstance(node.args[0], ast.Starred)):
            return node
        import copy
        kind, made = self.getters[node.func.id]
        subject = node.args[0]

        def chain(dotted, base):
            for part in dotted.split('.'):
                base = ast.Attribute(value=base, attr=part, ctx=ast.Load())
            return base
        if kind == 'attrgetter':
            if len(made.args) == 1:
                new = chain(made.args[0].value, subject)
            else:
                if not isinstance(subject, (ast.Name, ast.Attribute)):
                    return node  # evaluated once by the getter, several times if spelled out
                new = ast.Tuple(elts=[chain(a.value, copy.deepcopy(subject))
                                      for a in made.args], ctx=ast.Load())
        elif kind == 'itemgetter':
            new = ast.Subscript(value=subject, slice=copy.deepcopy(made.args[0]),
                                ctx=ast.Load())
        else:
            new = ast.Call(func=ast.Attribute(value=subject, attr=made.args[0].value,
                                              ctx=ast.Load()),
                           args=[copy.deepcopy(a) for a in made.args[1:]],
                           keywords=[copy.deepcopy(kw) for kw in made.keywords])
        for fresh in ast.walk(new):
            if isinstance(fresh, ast.expr) and not hasattr(fresh, 'lineno'):
                ast.copy_location(fresh, node)
        self.count += 1
        return new


def _wrapping_decorators(tree) -> int:
    """
    a private module level decorator of the form

        def deco(method):
            @wraps(method)
            def wrapper(self, *args, **kwargs):
                PRE; method(self, *args, **kwargs); POST
            return wrapper

    applied to a plain method whose body never returns: the method is analysed as
    ``PRE; BODY; POST`` (with the wrapper's ``self`` renamed), which is what calling it does
    """
    import copy
    if not isinstance(tree, ast.Module):
        return 0
    decorators = {}
    for stmt in tree.body:
        if not (isinstance(stmt, ast.FunctionDef) and not stmt.decorator_list
                and len(stmt.args.args) == 1 and not stmt.args.vararg and not stmt.args.kwarg
                and not stmt.args.kwonlyargs and not stmt.args.posonlyargs):
            continue
        param = stmt.args.args[0].arg
        body = [s for s in stmt.body
                if not (isinstance(s, ast.Expr) and isinstance(s.value, ast.Constant))]
        if len(body) != 2 or not isinstance(body[0], ast.FunctionDef) or not (
                isinstance(body[1], ast.Return) and isinstance(body[1].value, ast.Name)
                and body[1].value.id == body[0].name):
            continue
        wrapper = body[0]
        wargs = wrapper.args
        if len(wargs.args) != 1 or wargs.vararg is None or wargs.kwarg is None or \
                wargs.kwonlyargs or wargs.posonlyargs or wargs.defaults:
            continue
        if any(not (isinstance(d, ast.Call) and ast.unparse(d.func).split('.')[-1] == 'wraps'
                    and [ast.unparse(a) for a in d.args] == [param] and not d.keywords)
               for d in wrapper.decorator_list):
            continue
        me, star, kw = wargs.args[0].arg, wargs.vararg.arg, wargs.kwarg.arg
        wbody = [s for s in wrapper.body
                 if not (isinstance(s, ast.Expr) and isinstance(s.value, ast.Constant))]
        want = '%s(%s, *%s, **%s)' % (param, me, star, kw)
        at = [i for i, s in enumerate(wbody) if isinstance(s, ast.Expr)
              and ast.unparse(s.value) == want]
        if len(at) != 1:
            continue
        rest = wbody[:at[0]] + wbody[at[0] + 1:]
        if any(isinstance(n, ast.Name) and n.id in (param, star, kw)
               for s in rest for n in ast.walk(s)) or any(
                isinstance(n, (ast.Return, ast.Yield, ast.YieldFrom, ast.Await, ast.Global,
                               ast.Nonlocal, ast.FunctionDef, ast.AsyncFunctionDef,
                               ast.Lambda, ast.ClassDef))
                for s in rest for n in ast.walk(s)):
            continue
        decorators[stmt.name] = (me, wbody[:at[0]], wbody[at[0] + 1:])
    if not decorators:
        return 0
    # the decorator names are bound once (by their definition)
    for node in ast.walk(tree):
        if isinstance(node, ast.Name) and isinstance(node.ctx, (ast.Store, ast.Del)) and \
                node.id in decorators:
            decorators.pop(node.id)
    count = 0
    for node in ast.walk(tree):
        if not (isinstance(node, ast.FunctionDef) and len(node.decorator_list) == 1
                and isinstance(node.decorator_list[0], ast.Name)
                and node.decorator_list[0].id in decorators and node.args.args):
            continue
        inner = [n for s in node.body for n in ast.walk(s)]
        if any(isinstance(n, (ast.Return, ast.Yield, ast.YieldFrom)) for n in inner):
            continue
        me, pre, post = decorators[node.decorator_list[0].id]
        own = node.args.args[0].arg
        taken = {n.id for n in inner if isinstance(n, ast.Name)} | {
            a.arg for a in node.args.args + node.args.kwonlyargs}
        extra = {n.id for s in pre + post for n in ast.walk(s)
                 if isinstance(n, ast.Name) and isinstance(n.ctx, ast.Store)}
        if extra & taken:
            continue

        class Rename(ast.NodeTransformer):
            def visit_Name(self, name):
                if name.id == me:
                    return ast.copy_location(ast.Name(id=own, ctx=name.ctx), name)
                return name
        node.body = [Rename().visit(copy.deepcopy(s)) for s in pre] + node.body + \
            [Rename().visit(copy.deepcopy(s)) for s in post]
        node.decorator_list = []
        count += 1
    return count


def _record_classes_of(tree) -> dict:
    """private plain classes of the module that only hold a few fields: name ->
    (init params, [(field, expr)], {method: FunctionDef})"""
    found = {}
    if not isinstance(tree, ast.Module):
        return found
    for stmt in tree.body:
        if not (isinstance(stmt, ast.ClassDef) and stmt.name.startswith('_')
                and not stmt.name.startswith('__') and not stmt.decorator_list
                and not stmt.keywords and all(
                    isinstance(b, ast.Name) and b.id == 'object' for b in stmt.bases)):
            continue
        init, methods, ok = None, {}, True
        for item in stmt.body:
            if isinstance(item, ast.Expr) and isinstance(item.value, ast.Constant):
                continue
            if isinstance(item, ast.Assign) and len(item.targets) == 1 and isinstance(
                    item.targets[0], ast.Name) and item.targets[0].id == '__slots__':
                continue
            if isinstance(item, ast.FunctionDef) and not item.decorator_list and \
                    item.args.args and not item.args.vararg and not item.args.kwarg and \
                    not item.args.kwonlyargs and not item.args.posonlyargs and \
                    not item.args.defaults:
                if item.name == '__init__':
                    init = item
                elif item.name.startswith('__'):
                    ok = False
                else:
                    methods[item.name] = item
                continue
            ok = False
        if not ok or init is None:
            continue
        me = init.args.args[0].arg
        fields = []
        for item in init.body:
            if isinstance(item, ast.Expr) and isinstance(item.value, ast.Constant):
                continue
            target = item.targets[0] if isinstance(item, ast.Assign) and \
                len(item.targets) == 1 else (item.target if isinstance(item, ast.AnnAssign)
                                             and item.value is not None else None)
            if not (isinstance(target, ast.Attribute) and isinstance(target.value, ast.Name)
                    and target.value.id == me):
                ok = False
                break
            fields.append((target.attr, item.value))
        names = [f for f, _v in fields]
        if not ok or len(set(names)) != len(names):
            continue
        for method in methods.values():
            body = [b for b in method.body
                    if not (isinstance(b, ast.Expr) and isinstance(b.value, ast.Constant))]
            for position, item in enumerate(body):
                last = position == len(body) - 1
                if isinstance(item, ast.Return) and last and item.value is not None:
                    continue
                if isinstance(item, (ast.Assign, ast.AugAssign, ast.AnnAssign, ast.Expr)) \
                        and not any(isinstance(n, (ast.Yield, ast.YieldFrom, ast.Await,
                                                   ast.Lambda, ast.NamedExpr))
                                    for n in ast.walk(item)):
                    continue
                ok = False
            self_name = method.args.args[0].arg
            for node in ast.walk(method):
                if isinstance(node, ast.Name) and node.id == self_name:
                    pass
            # `self` only ever as `self.<field>`
            attrs = {id(n.value) for n in ast.walk(method) if isinstance(n, ast.Attribute)
                     and isinstance(n.value, ast.Name) and n.value.id == self_name
                     and n.attr in names}
            if any(isinstance(n, ast.Name) and n.id == self_name and id(n) not in attrs
                   for b in method.body for n in ast.walk(b)):
                ok = False
        if ok:
            found[stmt.name] = ([a.arg for a in init.args.args[1:]], fields, methods, me)
    return found


def _scalar_replacement(tree) -> int:
    """
    ``v = _Record(a, b)`` bound once in a function to a private plain record class of the
    module, where ``v`` is only ever used as ``v.<field>`` or through its small straight-line
    methods called as a whole statement (``x = v.m()``, ``v.m()``, ``yield v.m()``,
    ``return v.m()``): the record is replaced by one local per field (``v__field``) and the
    methods are run in place.  The object never escapes, so nothing else can see it.
    """
    import copy
    classes = _record_classes_of(tree)
    if not classes:
        return 0
    count = 0
    for fn in [n for n in ast.walk(tree)
               if isinstance(n, (ast.FunctionDef, ast.AsyncFunctionDef))]:
        own, nested = [], []
        todo = list(fn.body)
        while todo:
            node = todo.pop()
            if isinstance(node, (ast.FunctionDef, ast.AsyncFunctionDef, ast.ClassDef,
                                 ast.Lambda)):
                nested.append(node)
                continue
            own.append(node)
            todo.extend(ast.iter_child_nodes(node))
        made = [n for n in own if isinstance(n, ast.Assign) and len(n.targets) == 1
                and isinstance(n.targets[0], ast.Name) and isinstance(n.value, ast.Call)
                and isinstance(n.value.func, ast.Name) and n.value.func.id in classes]
        for assign in made:
            var = assign.targets[0].id
            params, fields, methods, init_self = classes[assign.value.func.id]
            call = assign.value
            if call.keywords or len(call.args) != len(params) or any(
                    isinstance(a, ast.Starred) for a in call.args):
                continue
            stores = [n for n in own if isinstance(n, ast.Name) and n.id == var
                      and isinstance(n.ctx, (ast.Store, ast.Del))]
            if len(stores) != 1 or any(isinstance(n, ast.Name) and n.id == var
                                       for sub in nested for n in ast.walk(sub)):
                continue
            if any(a.arg == var for a in fn.args.args + fn.args.kwonlyargs):
                continue
            names = [f for f, _v in fields]
            # classify every load of the variable
            parents = {}
            for node in own:
                for child in ast.iter_child_nodes(node):
                    parents[id(child)] = node
            ok, calls = True, []
            for node in own:
                if not (isinstance(node, ast.Name) and node.id == var
                        and isinstance(node.ctx, ast.Load)):
                    continue
                attr = parents.get(id(node))
                if not (isinstance(attr, ast.Attribute) and attr.value is node):
                    ok = False
                    break
                if attr.attr in names:
                    continue
                called = parents.get(id(attr))
                if not (attr.attr in methods and isinstance(called, ast.Call)
                        and called.func is attr and not called.keywords
                        and len(called.args) == len(methods[attr.attr].args.args) - 1
                        and all(isinstance(a, (ast.Name, ast.Constant))
                                for a in called.args)):
                    ok = False
                    break
                holder = parents.get(id(called))
                if isinstance(holder, (ast.Yield, ast.Await)):
                    holder = parents.get(id(holder))
                    if not isinstance(holder, ast.Expr):
                        ok = False
                        break
                if isinstance(holder, ast.Assign) and holder.value is called or \
                        isinstance(holder, ast.Expr) or \
                        isinstance(holder, ast.Return) and holder.value is called:
                    calls.append((holder, called, methods[attr.attr]))
                else:
                    ok = False
                    break
            if not ok or len({id(h) for h, _c, _m in calls}) != len(calls):
                continue
            taken = {n.id for n in own if isinstance(n, ast.Name)} | {
                a.arg for a in fn.args.args + fn.args.kwonlyargs}
            if any('%s__%s' % (var, f) in taken for f in names):
                continue

            # a field that is set by the constructor only, from a name the function never
            # re-binds, *is* that name
            written = {n.attr for n in own if isinstance(n, ast.Attribute)
                       and isinstance(n.value, ast.Name) and n.value.id == var
                       and isinstance(n.ctx, (ast.Store, ast.Del))}
            for _holder, _called, method in calls:
                written |= {n.attr for n in ast.walk(method) if isinstance(n, ast.Attribute)
                            and isinstance(n.ctx, (ast.Store, ast.Del))}
            rebound = {n.id for n in own if isinstance(n, ast.Name)
                       and isinstance(n.ctx, (ast.Store, ast.Del))}
            passed = dict(zip(params, call.args))
            constant = {}
            for field, value in fields:
                if field not in written and isinstance(value, ast.Name) and \
                        value.id in passed and isinstance(passed[value.id], ast.Name) and \
                        passed[value.id].id not in rebound:
                    constant[field] = passed[value.id].id

            def field_name(field):
                return constant.get(field, '%s__%s' % (var, field))

            class Fields(ast.NodeTransformer):
                def __init__(self, owner, bound):
                    self.owner, self.bound = owner, bound

                def visit_Attribute(self, node):
                    if isinstance(node.value, ast.Name) and node.value.id == self.owner \
                            and node.attr in names:
                        return ast.copy_location(
                            ast.Name(id=field_name(node.attr), ctx=node.ctx), node)
                    return self.generic_visit(node)

                def visit_Name(self, node):
                    if node.id in self.bound:
                        if isinstance(node.ctx, ast.Load):
                            return copy.deepcopy(self.bound[node.id])
                        return ast.copy_location(ast.Name(
                            id='%s__%s' % (var, node.id), ctx=node.ctx), node)
                    return node

            def at(node, where):
                for sub in ast.walk(node):
                    if isinstance(sub, (ast.expr, ast.stmt)):
                        ast.copy_location(sub, where)
                return ast.fix_missing_locations(node)

            # the constructor
            bound = dict(zip(params, call.args))
            start = []
            for field, value in fields:
                if field in constant:
                    continue
                start.append(at(ast.Assign(
                    targets=[ast.Name(id=field_name(field), ctx=ast.Store())],
                    value=Fields(init_self, bound).visit(copy.deepcopy(value))), assign))
            replacements = {id(assign): start}
            for holder, called, method in calls:
                me = method.args.args[0].arg
                bound = dict(zip([a.arg for a in method.args.args[1:]], called.args))
                local = {n.id for b in method.body for n in ast.walk(b)
                         if isinstance(n, ast.Name) and isinstance(n.ctx, ast.Store)}
                for name in local:
                    bound.setdefault(name, ast.Name(id='%s__%s' % (var, name),
                                                    ctx=ast.Load()))
                body = [b for b in method.body
                        if not (isinstance(b, ast.Expr) and isinstance(b.value, ast.Constant))]
                out, result = [], ast.Constant(value=None)
                for item in body:
                    new = Fields(me, bound).visit(copy.deepcopy(item))
                    if isinstance(new, ast.Return):
                        result = new.value
                    else:
                        out.append(at(new, holder))
                # the statement itself, with the call replaced by what the method returns
                for node in ast.walk(holder):
                    for field_, value in ast.iter_fields(node):
                        if value is called:
                            setattr(node, field_, at(result, holder))
                replacements[id(holder)] = out + [holder]
            for holder in [fn] + own:
                for field_ in ('body', 'orelse', 'finalbody'):
                    block = getattr(holder, field_, None)
                    if isinstance(block, list) and block and isinstance(block[0], ast.stmt):
                        fresh = []
                        for stmt in block:
                            fresh.extend(replacements.get(id(stmt), [stmt]))
                        block[:] = fresh
                for handler in getattr(holder, 'handlers', ()):
                    fresh = []
                    for stmt in handler.body:
                        fresh.extend(replacements.get(id(stmt), [stmt]))
                    handler.body[:] = fresh
            fn.body = [Fields(var, {}).visit(stmt) for stmt in fn.body]
            ast.fix_missing_locations(fn)
            count += 1
    return count


def _statement_spellings(tree) -> int:
    """two spellings of container statements as the plainer one:
      X.pop(k)                 (result discarded)   ->  del X[k]
      t = D.setdefault(k, E)   with ``k = object()`` bound once in the function just for
                               this (a fresh key is never present)  ->  D[k] = t = E
    """
    count = 0
    for fn in ast.walk(tree):
        if not isinstance(fn, (ast.FunctionDef, ast.AsyncFunctionDef)):
            continue
        names = {}
        fresh = set()
        for node in ast.walk(fn):
            if isinstance(node, ast.Name) and isinstance(node.ctx, (ast.Store, ast.Del)):
                names[node.id] = names.get(node.id, 0) + 1
        for node in ast.walk(fn):
            if isinstance(node, ast.Assign) and len(node.targets) == 1 and isinstance(
                    node.targets[0], ast.Name) and names.get(node.targets[0].id) == 1 and \
                    isinstance(node.value, ast.Call) and isinstance(
                        node.value.func, ast.Name) and node.value.func.id == 'object' and \
                    not node.value.args and not node.value.keywords and \
                    names.get('object', 0) == 0:
                fresh.add(node.targets[0].id)
        for holder in ast.walk(fn):
            for field in ('body', 'orelse', 'finalbody'):
                body = getattr(holder, field, None)
                if not isinstance(body, list) or not body or \
                        not isinstance(body[0], ast.stmt):
                    continue
                for index, stmt in enumerate(body):
                    if isinstance(stmt, ast.Expr) and isinstance(stmt.value, ast.Call) and \
                            isinstance(stmt.value.func, ast.Attribute) and \
                            stmt.value.func.attr == 'pop' and len(stmt.value.args) == 1 \
                            and not stmt.value.keywords and isinstance(
                                stmt.value.args[0], ast.Name) and isinstance(
                                stmt.value.func.value, (ast.Name, ast.Attribute)):
                        new = ast.Delete(targets=[ast.Subscript(
                            value=stmt.value.func.value, slice=stmt.value.args[0],
                            ctx=ast.Del())])
                        body[index] = ast.fix_missing_locations(ast.copy_location(new, stmt))
                        count += 1
                    elif isinstance(stmt, ast.Assign) and len(stmt.targets) == 1 and \
                            isinstance(stmt.targets[0], ast.Name) and isinstance(
                                stmt.value, ast.Call) and isinstance(
                                stmt.value.func, ast.Attribute) and \
                            stmt.value.func.attr == 'setdefault' and \
                            len(stmt.value.args) == 2 and not stmt.value.keywords and \
                            isinstance(stmt.value.args[0], ast.Name) and \
                            stmt.value.args[0].id in fresh and isinstance(
                                stmt.value.func.value, (ast.Name, ast.Attribute)):
                        key = stmt.value.args[0]
                        uses = [n for n in ast.walk(fn) if isinstance(n, ast.Call)
                                and isinstance(n.func, ast.Attribute)
                                and n.func.attr == 'setdefault' and n.args
                                and isinstance(n.args[0], ast.Name) and n.args[0].id == key.id]
                        stored = [n for n in ast.walk(fn) if isinstance(n, ast.Subscript)
                                  and isinstance(n.ctx, ast.Store) and isinstance(
                                      n.slice, ast.Name) and n.slice.id == key.id]
                        if len(uses) != 1 or stored:
                            continue
                        new = ast.Assign(targets=[
                            ast.Subscript(value=stmt.value.func.value, slice=key,
                                          ctx=ast.Store()),
                            ast.Name(id=stmt.targets[0].id, ctx=ast.Store())],
                            value=stmt.value.args[1],
                            type_comment=getattr(stmt, 'type_comment', None))
                        body[index] = ast.fix_missing_locations(ast.copy_location(new, stmt))
                        count += 1
    return count


def _local_getters(tree) -> int:
    """``call = methodcaller('append', item)`` bound once in a function to an accessor of
    the operator module over constants and names that are bound once: ``call(x)`` in that
    function is ``x.append(item)``"""
    if not isinstance(tree, ast.Module):
        return 0
    factories, modules = {}, set()
    for node in ast.walk(tree):
        if isinstance(node, ast.ImportFrom) and node.module == 'operator' and not node.level:
            for alias in node.names:
                if alias.name in _GETTERS:
                    factories[alias.asname or alias.name] = alias.name
        elif isinstance(node, ast.Import):
            for alias in node.names:
                if alias.name == 'operator':
                    modules.add(alias.asname or 'operator')
    if not factories and not modules:
        return 0
    count = 0
    for fn in ast.walk(tree):
        if not isinstance(fn, (ast.FunctionDef, ast.AsyncFunctionDef)):
            continue
        stores, nested = {}, []
        todo = list(fn.body)
        own = []
        while todo:
            node = todo.pop()
            if isinstance(node, (ast.FunctionDef, ast.AsyncFunctionDef, ast.ClassDef,
                                 ast.Lambda)):
                nested.append(node)
                if not isinstance(node, ast.Lambda):
                    stores[node.name] = stores.get(node.name, 0) + 2
                continue
            own.append(node)
            todo.extend(ast.iter_child_nodes(node))
        for node in own:
            if isinstance(node, ast.Name) and isinstance(node.ctx, (ast.Store, ast.Del)):
                stores[node.id] = stores.get(node.id, 0) + 1
        args = fn.args
        for a in args.posonlyargs + args.args + args.kwonlyargs + [
                x for x in (args.vararg, args.kwarg) if x is not None]:
            stores[a.arg] = stores.get(a.arg, 0) + 1
        if any(isinstance(n, (ast.Global, ast.Nonlocal)) for n in own):
            continue
        found = {}
        for node in own:
            if not (isinstance(node, ast.Assign) and len(node.targets) == 1
                    and isinstance(node.targets[0], ast.Name)
                    and isinstance(node.value, ast.Call) and node in fn.body):
                continue
            name, call = node.targets[0].id, node.value
            kind = None
            if isinstance(call.func, ast.Name) and stores.get(call.func.id, 0) == 0:
                kind = factories.get(call.func.id)
            elif isinstance(call.func, ast.Attribute) and isinstance(
                    call.func.value, ast.Name) and call.func.value.id in modules and \
                    call.func.attr in _GETTERS and stores.get(call.func.value.id, 0) == 0:
                kind = call.func.attr
            if kind != 'methodcaller' or stores.get(name) != 1 or not call.args or any(
                    isinstance(a, ast.Starred) for a in call.args):
                continue
            if not (isinstance(call.args[0], ast.Constant) and isinstance(
                    call.args[0].value, str) and call.args[0].value.isidentifier()):
                continue
            operands = list(call.args[1:]) + [kw.value for kw in call.keywords]
            if any(kw.arg is None for kw in call.keywords) or not all(
                    isinstance(a, ast.Constant) or (isinstance(a, ast.Name)
                                                    and stores.get(a.id, 0) <= 1)
                    for a in operands):
                continue
            # used only by being called with one argument, outside nested scopes
            uses = [n for n in own if isinstance(n, ast.Name) and n.id == name
                    and isinstance(n.ctx, ast.Load)]
            calls = [n for n in own if isinstance(n, ast.Call) and isinstance(n.func, ast.Name)
                     and n.func.id == name and len(n.args) == 1 and not n.keywords
                     and not isinstance(n.args[0], ast.Starred)]
            if len(uses) != len(calls) or any(
                    isinstance(x, ast.Name) and x.id == name
                    for sub in nested for x in ast.walk(sub)):
                continue
            found[name] = (kind, call)
        if found:
            applier = _ApplyGetters(found)
            fn.body = [applier.visit(stmt) for stmt in fn.body]
            count += applier.count
    return count


#: methods whose result the interpreter only takes the truth of
_TRUTH_COERCED = ('__subclasscheck__', '__instancecheck__', '__contains__')


def _predicate_returns(tree) -> int:
    """``return a or (b and c)`` / ``return x if c else y`` in a method whose result is
    only taken the truth of, as the chain of tests and returns it abbreviates"""
    count = 0

    def chain(expr, at):
        def loc(node):
            return ast.fix_missing_locations(ast.copy_location(node, at))
        if isinstance(expr, ast.BoolOp):
            is_or = isinstance(expr.op, ast.Or)
            out = []
            for value in expr.values[:-1]:
                test = value if is_or else ast.UnaryOp(op=ast.Not(), operand=value)
                out.append(loc(ast.If(test=test, body=[loc(ast.Return(
                    value=ast.Constant(value=is_or)))], orelse=[])))
            return out + chain(expr.values[-1], at)
        if isinstance(expr, ast.IfExp):
            return [loc(ast.If(test=expr.test, body=chain(expr.body, at),
                               orelse=chain(expr.orelse, at)))]
        return [loc(ast.Return(value=expr))]

    def rewrite(body):
        nonlocal count
        out = []
        for stmt in body:
            if isinstance(stmt, (ast.FunctionDef, ast.AsyncFunctionDef, ast.ClassDef)):
                out.append(stmt)
                continue
            for field in ('body', 'orelse', 'finalbody'):
                inner = getattr(stmt, field, None)
                if isinstance(inner, list) and inner and isinstance(inner[0], ast.stmt):
                    setattr(stmt, field, rewrite(inner))
            for handler in getattr(stmt, 'handlers', ()):
                handler.body = rewrite(handler.body)
            if isinstance(stmt, ast.Return) and isinstance(stmt.value,
                                                           (ast.BoolOp, ast.IfExp)):
                out.extend(chain(stmt.value, stmt))
                count += 1
            else:
                out.append(stmt)
        return out

    for node in ast.walk(tree):
        if isinstance(node, ast.FunctionDef) and node.name in _TRUTH_COERCED:
            node.body = rewrite(node.body)
    return count


class _BoolOfTest(ast.NodeTransformer):
    """``bool(a > b)`` / ``bool(not x)`` is the comparison / negation itself (they answer
    with a bool already); ``bool`` must be the builtin"""

    def __init__(self):
        self.count = 0

    def visit_Call(self, node):
        node = self.generic_visit(node)
        if isinstance(node.func, ast.Name) and node.func.id == 'bool' and \
                len(node.args) == 1 and not node.keywords:
            inner = node.args[0]
            if isinstance(inner, ast.Compare) and all(
                    isinstance(op, (ast.Lt, ast.LtE, ast.Gt, ast.GtE, ast.Is, ast.IsNot,
                                    ast.In, ast.NotIn)) for op in inner.ops) or \
                    isinstance(inner, ast.UnaryOp) and isinstance(inner.op, ast.Not):
                self.count += 1
                return inner
        return node


def desugar(tree):
    """normalise ``tree`` in place; returns the number of rewrites"""
    count = 0
    if not any(isinstance(n, ast.Name) and n.id == 'bool' and isinstance(n.ctx, ast.Store)
               for n in ast.walk(tree)):
        unwrap = _BoolOfTest()
        unwrap.visit(tree)
        count += unwrap.count
    count += _predicate_returns(tree)
    functions, modules, shadowed, filterfalse = _operator_imports(tree)
    mapper = _MapToGenerator(functions, modules, shadowed, filterfalse)
    mapper.visit(tree)
    count += mapper.count
    getters = _operator_getters(tree)
    if getters:
        applier = _ApplyGetters(getters)
        applier.visit(tree)
        count += applier.count
    count += _wrapping_decorators(tree)
    count += _scalar_replacement(tree)
    count += _local_getters(tree)
    count += _statement_spellings(tree)
    count += _fuse_generator_loops(tree)
    count += _fuse_iterator_loops(tree)
    count += _close_over_arguments(tree)
    count += _selfify(tree)
    for node in list(ast.walk(tree)):
        if isinstance(node, ast.ClassDef):
            continue
        for field in ('body', 'orelse', 'finalbody'):
            body = getattr(node, field, None)
            if not isinstance(body, list) or not body or \
                    not isinstance(body[0], ast.stmt):
                continue
            new = _rewrite_body(body)
            count += len(new) - len(body)
            body[:] = new
    return count
