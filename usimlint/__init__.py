"""usimlint -- repository-specific static analyser for MaineKuehn/usim (see DESIGN.md)"""
__version__ = '0.1'
