"""
E9 -- verdict collection, known findings, evidence and replay files, exit codes.

exit 0: every rule instance holds (or fails only as listed in known_findings.json)
exit 1: at least one unlisted violation (one ``VIOLATION property=<id> replay=<path>`` each)
exit 2: ANALYSIS-ERROR (anchor missing, floor not met, budget exceeded, internal error)
"""
import hashlib
import json
import os
import sys
import time

VERIF = os.path.dirname(os.path.dirname(os.path.abspath(__file__)))
EVIDENCE_DIR = os.path.join(VERIF, 'evidence')
REPLAY_DIR = os.path.join(EVIDENCE_DIR, 'replay')
KNOWN_FILE = os.path.join(VERIF, 'known_findings.json')


class Instance:
    __slots__ = ('rule', 'construct', 'ok', 'where', 'detail', 'path', 'nontrivial',
                 'assert_only', 'known', 'analysed')

    def __init__(self, rule, construct, ok, where, detail, path, nontrivial, assert_only,
                 analysed):
        self.rule = rule
        self.construct = construct
        self.ok = ok
        self.where = where
        self.detail = detail
        self.path = path or []
        self.nontrivial = nontrivial
        self.assert_only = assert_only
        self.known = None
        self.analysed = analysed

    def as_sample(self):
        sample = {
            'rule': self.rule, 'construct': self.construct, 'where': self.where,
            'verdict': 'holds' if self.ok else (
                'known-finding' if self.known else 'VIOLATION'),
            'inspected': self.detail,
        }
        if self.assert_only:
            sample['assert_only'] = True
        if self.path and not self.ok:
            sample['path'] = self.path[:30]
        return sample


def load_known():
    try:
        with open(KNOWN_FILE) as stream:
            data = json.load(stream)
    except FileNotFoundError:
        return {'known': [], 'fixed': []}
    data.setdefault('known', [])
    data.setdefault('fixed', [])
    return data


class Check:
    """Collects the rule instances of one property check"""

    def __init__(self, prop_id: str, tier: str = 'quick', seed: int = 0,
                 only: str = None, quiet: bool = False):
        self.prop_id = prop_id
        self.tier = tier
        self.seed = seed
        self.only = only
        self.quiet = quiet
        self.instances = []
        self.notes = []
        self.floors = []
        self.rules = {}
        self.started = time.time()
        self.stats = {}
        self.assumptions = []
        self.errors = []
        self.selftest = None

    # -- recording ----------------------------------------------------------
    def rule(self, rule_id: str, text: str):
        self.rules[rule_id] = text

    def instance(self, rule, construct, ok, where='', detail='', path=None,
                 nontrivial=True, assert_only=False, analysed=1):
        if self.only is not None and self.only != '%s %s' % (rule, construct):
            return ok
        inst = Instance(rule, construct, bool(ok), where, detail, path, nontrivial,
                        assert_only, analysed)
        self.instances.append(inst)
        return ok

    def note(self, text: str):
        self.notes.append(text)

    def floor(self, rule: str, minimum: int, what: str = None):
        """a rule matching fewer instances than confirmed by hand passes vacuously"""
        self.floors.append((rule, minimum, what))

    def assume(self, text: str):
        if text not in self.assumptions:
            self.assumptions.append(text)

    def error(self, text: str):
        self.errors.append(text)

    # -- finishing ----------------------------------------------------------
    def finish(self, write=True) -> int:
        out = sys.stdout
        known = load_known()
        known_for = [k for k in known['known'] if k.get('property') == self.prop_id]
        matched_known = []
        violations = []
        for inst in self.instances:
            if inst.ok:
                continue
            for entry in known_for:
                if entry.get('rule') == inst.rule and entry.get('construct') == inst.construct:
                    inst.known = entry
                    if entry not in matched_known:
                        matched_known.append(entry)
                    break
            else:
                violations.append(inst)
        floor_errors = []
        if self.only is None:
            for rule, minimum, what in self.floors:
                count = sum(1 for inst in self.instances if inst.rule == rule)
                if count < minimum:
                    floor_errors.append(
                        'instance floor not met for rule %s: %d < %d%s' % (
                            rule, count, minimum, ' (%s)' % what if what else ''))
        if floor_errors and violations and not self.errors:
            # the rules that did find their constructs report violations: those stand; the
            # thinned-out rule is named with them instead of voiding the run
            for text in floor_errors:
                self.notes.append(text)
        else:
            self.errors.extend(floor_errors)
        wall = time.time() - self.started
        if not self.quiet:
            print('== %s (%s) ==' % (self.prop_id, self.tier), file=out)
            for rule_id, text in self.rules.items():
                count = sum(1 for i in self.instances if i.rule == rule_id)
                good = sum(1 for i in self.instances if i.rule == rule_id and i.ok)
                print('rule %-18s %3d/%-3d  %s' % (rule_id, good, count, text), file=out)
            for key, value in sorted(self.stats.items()):
                print('analysed %s: %s' % (key, value), file=out)
            for text in self.notes:
                print('note: %s' % text, file=out)
        for inst in self.instances:
            if inst.ok or self.quiet:
                continue
            label = 'known finding' if inst.known else 'violation'
            print('--- %s: [%s] %s' % (label, inst.rule, inst.construct), file=out)
            print('    at %s' % inst.where, file=out)
            print('    %s' % inst.detail, file=out)
            for line in inst.path[:40]:
                print('      | %s' % line, file=out)
        for entry in matched_known:
            print('KNOWN-FINDING: property=%s %s %s: %s' % (
                self.prop_id, entry.get('rule'), entry.get('construct'), entry.get('what')),
                file=out)
        code = 0
        replay_paths = []
        if write and self.only is None and os.path.isdir(REPLAY_DIR):
            for name in os.listdir(REPLAY_DIR):
                if name.startswith(self.prop_id + '-'):
                    os.remove(os.path.join(REPLAY_DIR, name))
        if self.errors and violations:
            # part of the analysis could not be completed, but the rule instances reported
            # below were decided: the violations stand
            for text in self.errors:
                print('note: analysis incomplete (%s); the violations found stand' % text,
                      file=out)
        if self.errors and not violations:
            for text in self.errors:
                print('ANALYSIS-ERROR property=%s %s' % (self.prop_id, text), file=out)
            code = 2
        elif violations:
            os.makedirs(REPLAY_DIR, exist_ok=True)
            for inst in violations:
                digest = hashlib.sha1(
                    ('%s|%s|%s' % (self.prop_id, inst.rule, inst.construct)).encode()
                ).hexdigest()[:10]
                replay = os.path.join(REPLAY_DIR, '%s-%s-%s.json' % (
                    self.prop_id, inst.rule.replace('/', '_'), digest))
                if write:
                    with open(replay, 'w') as stream:
                        json.dump({
                            'property': self.prop_id, 'rule': inst.rule,
                            'construct': inst.construct, 'where': inst.where,
                            'detail': inst.detail, 'path': inst.path,
                        }, stream, indent=1)
                replay_paths.append(replay)
                print('VIOLATION property=%s replay=%s' % (self.prop_id, replay), file=out)
            code = 1
        if write and self.only is None:
            self._write_evidence(wall, violations, matched_known, code)
        if not self.quiet:
            print('%s: %d rule instances, %d hold, %d known findings, %d violations, '
                  'exit %d (%.2fs)' % (
                      self.prop_id, len(self.instances),
                      sum(1 for i in self.instances if i.ok),
                      sum(1 for i in self.instances if not i.ok and i.known),
                      len(violations), code, wall), file=out)
        return code

    def _write_evidence(self, wall, violations, matched_known, code):
        os.makedirs(EVIDENCE_DIR, exist_ok=True)
        distinct = set()
        for inst in self.instances:
            if inst.nontrivial:
                distinct.add((inst.rule, inst.construct))
        # samples: all failing instances plus a seeded selection of holding ones
        failing = [i for i in self.instances if not i.ok]
        holding = [i for i in self.instances if i.ok]
        step = max(1, len(holding) // 12)
        offset = self.seed % step if step else 0
        chosen = holding[offset::step][:12]
        samples = [i.as_sample() for i in failing[:20]] + [i.as_sample() for i in chosen]
        evaluations = sum(max(1, i.analysed) for i in self.instances)
        coverage = {
            'explanation': (
                'Repository-specific static analysis of /repo/usim (sources parsed, never '
                'imported or run). Rules applied: ' + '; '.join(
                    '%s = %s' % (k, v) for k, v in self.rules.items())),
            'obligations': len(self.instances),
            'discharged': sum(1 for i in self.instances if i.ok),
            'evaluations': max(1, evaluations),
            'distinct_nontrivial': len(distinct),
            'rule': ('one case per rule instance (rule, construct) discovered by query on '
                     'the current source; non-trivial = the verdict needed at least one '
                     'suspension site, call site, path or normal form to be analysed; '
                     'evaluations = instances weighted by paths/sites inspected'),
            'samples': samples or [{'note': 'no instances'}],
            'exhaustive': True,
            'known_findings_matched': [
                '%s %s' % (k.get('rule'), k.get('construct')) for k in matched_known],
            'assert_only_instances': sum(1 for i in self.instances if i.assert_only),
            'checker_cmd': './check %s %s' % (self.prop_id, self.tier),
            'trusted_base': [
                'Python semantics as encoded in usimlint/paths.py (evaluation order, '
                'try/finally, generator/coroutine protocol, async with/for desugaring)',
                'external models in usimlint (contextmanager, ExitStack, deque, heapq, '
                'sortedcontainers, weakref, asyncstdlib.islice)',
                'sync helper calls raise only what their summaries say',
            ],
            'notes': self.notes[:40],
        }
        coverage.update({k: v for k, v in self.stats.items()})
        if self.selftest is not None:
            coverage['selftest'] = self.selftest
        evidence = {
            'property_id': self.prop_id,
            'tier': self.tier,
            'seed': self.seed,
            'level': 'other',
            'coverage': coverage,
            'assumptions': self.assumptions or [
                'decides the structural clauses listed in DESIGN.md section 5 for this '
                'property, not the behaviour as a whole'],
            'wall_s': round(wall, 3),
            'violations': len(violations),
            'exit_code': code,
        }
        path = os.path.join(EVIDENCE_DIR, '%s.json' % self.prop_id)
        with open(path, 'w') as stream:
            json.dump(evidence, stream, indent=1, default=str)



class SubCheck:
    """
    Runs the rules of another property as *one* rule of this one: a property that relies
    on a primitive (a queue on its mutex) decides the discipline of that primitive too.
    Every instance is recorded under ``rule`` with the construct prefixed.
    """

    def __init__(self, check: Check, rule: str, prefix: str):
        self._check, self._rule, self._prefix = check, rule, prefix
        self.stats = {}
        self.prop_id, self.tier, self.seed = check.prop_id, check.tier, check.seed
        self.selftest = None

    def rule(self, rule_id: str, text: str):
        pass

    def instance(self, rule, construct, ok, where='', detail='', path=None,
                 nontrivial=True, assert_only=False, analysed=1):
        return self._check.instance(self._rule, '%s:%s %s' % (self._prefix, rule, construct),
                                    ok, where, detail, path, nontrivial, assert_only,
                                    analysed)

    def note(self, text: str):
        self._check.note('%s: %s' % (self._prefix, text))

    def floor(self, rule: str, minimum: int, what: str = None):
        pass   # floors are the business of the property that owns the rules

    def assume(self, text: str):
        self._check.assume(text)

    def error(self, text: str):
        self._check.error('%s: %s' % (self._prefix, text))
