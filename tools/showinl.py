"""debug aid: inlined paths:  showinl.py <cls qn> <method> <depth> [which]"""
import sys
sys.path.insert(0, '/verif')
from usimlint.engine import Analysis
from usimlint import rules
an = Analysis()
c = an.callee(sys.argv[1], sys.argv[2])
depth = int(sys.argv[3])
which = sys.argv[4] if len(sys.argv) > 4 else None
paths = an.inlined_paths(c, lambda callee, d: True, depth, which)
print(len(paths), 'paths')
for p in paths[:int(sys.argv[5]) if len(sys.argv) > 5 else 10]:
    print('---', p.kind)
    for l in p.describe(80): print('   ', l)
