"""
Verify a seeded change produced by a sub-agent and import it into /verif/seeded/.

  tools/seedimport.py <Cnn> [k ...]

For /tmp/seed_out/<Cnn>/<k>/{patch.diff,demo.py,meta.json}: in the scratch worktree
/tmp/wt/<Cnn> (never /repo) apply the patch, run the project's test suite (must be green),
run demo.py (must fail), revert, run demo.py again (must pass).  Only then the change is
copied to /verif/seeded/<Cnn>-<k>/ with what was run recorded in meta.json.
"""
import json
import os
import shutil
import subprocess
import sys

VERIF = os.path.dirname(os.path.dirname(os.path.abspath(__file__)))


def sh(cmd, timeout=1200):
    try:
        res = subprocess.run(cmd, shell=True, capture_output=True, text=True, timeout=timeout)
        return res.returncode, (res.stdout + res.stderr)
    except subprocess.TimeoutExpired:
        return 124, 'TIMEOUT'


def main(argv):
    prop = argv[0]
    wt = '/tmp/wt/%s' % prop
    src_root = '/tmp/seed_out/%s' % prop
    ks = argv[1:] or sorted(k for k in os.listdir(src_root) if k.isdigit())
    if not os.path.isdir(wt):
        sh('git -C /repo worktree add %s HEAD' % wt)
    sh('git -C %s checkout -- .' % wt)
    env = 'cd %s && PYTHONPATH=%s' % (wt, wt)
    for k in ks:
        src = os.path.join(src_root, k)
        patch = os.path.join(src, 'patch.diff')
        demo = os.path.join(src, 'demo.py')
        if not (os.path.isfile(patch) and os.path.isfile(demo)):
            print(prop, k, 'incomplete: skipped')
            continue
        meta = json.load(open(os.path.join(src, 'meta.json')))
        code0, _ = sh('%s timeout 120 /venv/bin/python %s' % (env, demo))
        rc, out = sh('git -C %s apply %s' % (wt, patch))
        if rc != 0:
            print(prop, k, 'patch does not apply:', out[:200])
            continue
        only_usim = all(line[6:].startswith('usim/') for line in open(patch)
                        if line.startswith('+++ b/'))
        rc_import, _ = sh('%s /venv/bin/python -c "import usim, usim.py, usim.py.resources.store"'
                          % env)
        rc_tests, tests_out = sh('%s timeout 900 /venv/bin/python -m pytest -q -p no:cacheprovider'
                                 % env)
        tail = [l for l in tests_out.strip().splitlines() if 'passed' in l or 'failed' in l][-1:]
        code1, demo_out = sh('%s timeout 120 /venv/bin/python %s' % (env, demo))
        sh('git -C %s checkout -- .' % wt)
        code2, _ = sh('%s timeout 120 /venv/bin/python %s' % (env, demo))
        ok = code0 == 0 and code2 == 0 and code1 != 0 and rc_tests == 0 and rc_import == 0 \
            and only_usim
        print('%s-%s: demo clean=%d/%d with-change=%d tests=%s import=%d -> %s' % (
            prop, k, code0, code2, code1, tail, rc_import, 'KEEP' if ok else 'REJECT'))
        if not ok:
            continue
        dest = os.path.join(VERIF, 'seeded', '%s-%s' % (prop, k))
        os.makedirs(dest, exist_ok=True)
        shutil.copy(patch, os.path.join(dest, 'patch.diff'))
        shutil.copy(demo, os.path.join(dest, 'demo.py'))
        meta['property'] = prop
        meta['verified'] = {
            'worktree': 'scratch git worktree of /repo HEAD (%s)' % sh(
                'git -C /repo log --format=%h -1')[1].strip(),
            'test_suite': tail[0] if tail else 'exit %d' % rc_tests,
            'demo_exit_unmodified': code0,
            'demo_exit_with_change': code1,
            'demo_exit_after_revert': code2,
            'commands': [
                'git apply patch.diff (in the scratch worktree)',
                'PYTHONPATH=<wt> /venv/bin/python -m pytest -q -p no:cacheprovider',
                'PYTHONPATH=<wt> timeout 120 /venv/bin/python demo.py',
                'git checkout -- . ; demo.py again',
            ],
            'demo_output_with_change_tail': demo_out.strip().splitlines()[-3:],
        }
        json.dump(meta, open(os.path.join(dest, 'meta.json'), 'w'), indent=1)
    return 0


if __name__ == '__main__':
    sys.exit(main(sys.argv[1:]))
