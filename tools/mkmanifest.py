"""(re)generate MANIFEST.json from the table below; validates it and every evidence file"""
import json, os, sys

VERIF = os.path.dirname(os.path.dirname(os.path.abspath(__file__)))
sys.path.insert(0, VERIF)
from usimlint.manifest_table import CLAIMS, NOT_APPLICABLE  # noqa: E402

TECH = 'repository-specific static analysis: typed call resolution + syntax-directed path enumeration over suspension sites + summaries/normal forms (usimlint)'

manifest = {
    'version': 1,
    'setup_cmd': "/venv/bin/python -B -c \"import sys; sys.path.insert(0, '/verif'); import usimlint.__main__; print('usimlint', usimlint.__version__)\"",
    'hooks': {
        'guard': 'USIM_VERIF',
        'enable': 'none: the analysis only reads /repo/usim/**/*.py and needs no instrumentation; the guard name is reserved and unused',
        'baseline_off_cmd': 'cd /repo && /venv/bin/python -m pytest -ra -q -p no:cacheprovider --timeout=900 --continue-on-collection-errors',
        'source_commits': [],
        'add_only': True,
    },
    'engines': [{
        'name': 'usimlint', 'path': 'usimlint/',
        'serves_properties': sorted(CLAIMS),
        'kind_free_text': 'stdlib-only ast analyser: program model, light type inference, call resolution per concrete receiver, path enumeration with exceptional edges at suspension sites, callee summaries, algebraic/boolean normal forms; rules per property in usimlint/props/',
    }],
    'checks': [],
    'not_applicable': [],
    'notes': 'All checks decide structural clauses (necessary conditions) of the properties from source; see DESIGN.md section 5 for what is and is not decided per property. Exit 2 + ANALYSIS-ERROR means the analysis itself could not run (anchor missing, instance floor, budget).',
}
for pid in sorted(CLAIMS):
    claim = CLAIMS[pid]
    manifest['checks'].append({
        'property_id': pid,
        'quick_cmd': './check %s quick' % pid,
        'thorough_cmd': './check %s thorough' % pid,
        'evidence_file': 'evidence/%s.json' % pid,
        'replay_cmd_template': '/venv/bin/python -B -m usimlint explain {path}',
        'engine': 'usimlint',
        'level_claimed': {'category': 'other', 'text': claim['text'], 'design_ref': 'DESIGN.md section 5/%s' % pid},
        'level_note': claim['note'],
        'technique': claim.get('technique', TECH),
    })
for pid in ['C%02d' % n for n in range(1, 21)]:
    if pid not in CLAIMS:
        manifest['not_applicable'].append({'property_id': pid, 'reason': NOT_APPLICABLE.get(pid, 'check not built yet (work in progress in this session); no claim is made')})
with open(os.path.join(VERIF, 'MANIFEST.json'), 'w') as stream:
    json.dump(manifest, stream, indent=1)
    stream.write('\n')
print('MANIFEST.json written: %d checks, %d not applicable' % (len(manifest['checks']), len(manifest['not_applicable'])))
