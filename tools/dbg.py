"""debug aid: run one property's check on a corpus patch applied in memory and print the
failing instances with their details:  tools/dbg.py twins/R72-2 C08 [C09 ...]
   (use `-i` as last argument to drop into pdb post-mortem on an internal error)"""
import importlib
import sys
import time
sys.path.insert(0, '/verif')
sys.setrecursionlimit(10000)
from usimlint.corpus import apply_patch
from usimlint.selftest import read_sources
from usimlint.report import Check
from usimlint.engine import Analysis


def analysis_for(patch_dir):
    sources = read_sources(None)
    overlay = apply_patch(sources, open('/verif/%s/patch.diff' % patch_dir).read()) \
        if patch_dir != '-' else None
    return Analysis(overlay=overlay)


if __name__ == '__main__':
    args = [a for a in sys.argv[1:] if a != '-i']
    for prop in args[1:]:
        an = analysis_for(args[0])
        check = Check(prop, 'selftest', 0, quiet=True)
        t = time.time()
        module = importlib.import_module('usimlint.props.%s' % prop.lower())
        try:
            module.run(check, an)
        except Exception as err:
            if '-i' in sys.argv:
                import pdb
                import traceback
                traceback.print_exc()
                pdb.post_mortem()
            print('ERROR', type(err).__name__, err)
        for i in check.instances:
            if not i.ok and not i.known:
                print('FAIL', i.rule, i.construct, '|', i.where, '|', str(i.detail)[:600])
        print(prop, 'errors', check.errors[:5], '%.1fs' % (time.time() - t))
