#!/bin/sh
# apply a corpus patch to /repo, run the given checks, revert:  tools/applyvariant.sh twins/R13-1 C01 C03
d=$1; shift
git -C /repo apply /verif/$d/patch.diff || exit 2
for p in "$@"; do (cd /verif && ./check $p quick | grep -v "^analysed\|^note\|^rule\|^==" | cut -c1-400); done
git -C /repo checkout -- .
