#!/bin/sh
# run every registered check (tier $1 = quick|thorough), then validate manifest and evidence
cd "$(dirname "$0")/.." || exit 2
tier=${1:-quick}
rc=0
for n in 01 02 03 04 05 06 07 08 09 10 11 12 13 14 15 16 17 18 19 20; do
  ./check C$n $tier > /tmp/usimlint_C$n.log 2>&1; code=$?
  tail -1 /tmp/usimlint_C$n.log
  grep -h "^VIOLATION\|^ANALYSIS-ERROR" /tmp/usimlint_C$n.log
  [ $code -ne 0 ] && rc=1
  rm -f /tmp/usimlint_C$n.log
done
python3-vt - <<'PY'
import json, jsonschema, glob
jsonschema.validate(json.load(open('MANIFEST.json')), json.load(open('/root/.vp/MANIFEST.schema.json')))
sch = json.load(open('/root/.vp/EVIDENCE.schema.json'))
n = 0
for f in sorted(glob.glob('evidence/C*.json')):
    jsonschema.validate(json.load(open(f)), sch); n += 1
print('manifest valid; %d evidence files valid' % n)
PY
exit $rc
