"""debug aid: print summary and paths of one function:  showpaths.py <fn qn> [recv] [which]"""
import sys, time
sys.path.insert(0, '/verif')
from usimlint.model import Program
from usimlint.types import TypeEngine, Callee
from usimlint.paths import Interp

p = Program.load()
it = Interp(p)
qn = sys.argv[1]
fn = p.functions[qn]
recv = sys.argv[2] if len(sys.argv) > 2 and sys.argv[2] != '-' else (fn.cls.qn if fn.cls else (p.enclosing_self_class(fn).qn if p.enclosing_self_class(fn) else None))
which = sys.argv[3] if len(sys.argv) > 3 else None
t = time.time()
s = it.summary(Callee(fn, recv), which)
print(s, 'paths', s.n_paths, 'step', s.step, s.end_susp, 'truth', s.ret_truth, '%.2fs' % (time.time() - t))
limit = int(sys.argv[4]) if len(sys.argv) > 4 else 12
for path in (s.paths or [])[:limit]:
    print('---', path.kind, 'must' if path.must_suspended() else ('may' if path.may_suspended() else 'never'))
    for line in path.describe():
        print('   ', line)
print('unresolved', it.unresolved)
