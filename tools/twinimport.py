"""
Verify a refactoring produced by a sub-agent and import it into /verif/twins/.

  tools/twinimport.py <Rn-k> [...]

For /tmp/twin_out/<Rn-k>/{patch.diff,meta.json}: in the scratch worktree /tmp/wt/T<n> (never
/repo) apply the patch, run the project's test suite (must be green) and import the package,
revert.  Only then the refactoring is copied to /verif/twins/<Rn-k>/ with what was run.
"""
import json
import os
import shutil
import subprocess
import sys

VERIF = os.path.dirname(os.path.dirname(os.path.abspath(__file__)))


def sh(cmd, timeout=1200):
    try:
        res = subprocess.run(cmd, shell=True, capture_output=True, text=True, timeout=timeout)
        return res.returncode, (res.stdout + res.stderr)
    except subprocess.TimeoutExpired:
        return 124, 'TIMEOUT'


def main(argv):
    for name in argv:
        src = '/tmp/twin_out/%s' % name
        patch = os.path.join(src, 'patch.diff')
        if not (os.path.isfile(patch) and os.path.isfile(os.path.join(src, 'meta.json'))):
            print(name, 'incomplete: skipped')
            continue
        wt = '/tmp/wt/T%s' % name[1:].split('-')[0]
        sh('git -C %s checkout -- .' % wt)
        rc, out = sh('git -C %s apply %s' % (wt, patch))
        if rc != 0:
            print(name, 'patch does not apply:', out[:200])
            continue
        only_usim = all(line[6:].startswith('usim/') for line in open(patch)
                        if line.startswith('+++ b/'))
        env = 'cd %s && PYTHONPATH=%s' % (wt, wt)
        rc_import, _ = sh('%s /venv/bin/python -c "import usim, usim.py, usim.py.resources.store"'
                          % env)
        rc_tests, tests_out = sh('%s timeout 900 /venv/bin/python -m pytest -q -p no:cacheprovider'
                                 % env)
        tail = [l for l in tests_out.strip().splitlines() if 'passed' in l or 'failed' in l][-1:]
        sh('git -C %s checkout -- .' % wt)
        ok = rc_tests == 0 and rc_import == 0 and only_usim
        print('%s: tests=%s import=%d -> %s' % (name, tail, rc_import, 'KEEP' if ok else 'REJECT'))
        if not ok:
            continue
        dest = os.path.join(VERIF, 'twins', name)
        os.makedirs(dest, exist_ok=True)
        shutil.copy(patch, os.path.join(dest, 'patch.diff'))
        meta = json.load(open(os.path.join(src, 'meta.json')))
        meta['kind'] = 'refactoring'
        meta['verified'] = {'test_suite': tail[0] if tail else 'exit %d' % rc_tests,
                            'where': 'scratch worktree of /repo HEAD'}
        json.dump(meta, open(os.path.join(dest, 'meta.json'), 'w'), indent=1)
    return 0


if __name__ == '__main__':
    sys.exit(main(sys.argv[1:]))
