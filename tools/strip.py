"""print python sources without docstrings (reading aid)"""
import ast, sys
for f in sys.argv[1:]:
    t = ast.parse(open(f).read())
    for n in ast.walk(t):
        if isinstance(n, (ast.FunctionDef, ast.AsyncFunctionDef, ast.ClassDef, ast.Module)):
            if n.body and isinstance(n.body[0], ast.Expr) and isinstance(getattr(n.body[0], 'value', None), ast.Constant) and isinstance(n.body[0].value.value, str):
                n.body = n.body[1:] or [ast.Pass()]
    print('#####', f)
    print(ast.unparse(t))
