"""run the in-memory patch corpus (seeded changes / refactorings) selectively:
   tools/corpuscheck.py seeded [substring]   |   tools/corpuscheck.py twins [substring] [Cnn ...]"""
import concurrent.futures
import sys
sys.path.insert(0, '/verif')
from usimlint.corpus import corpus_variants
from usimlint.selftest import _worker


def main(argv):
    kind = argv[0]
    sub = argv[1] if len(argv) > 1 else ''
    props = set(a for a in argv[2:])
    chosen = [v for v in corpus_variants() if
              (kind == 'seeded') == v['id'].startswith('seeded-') and sub in v['id']
              and (not props or v['property'] in props)]
    with concurrent.futures.ProcessPoolExecutor(max_workers=16) as pool:
        results = list(pool.map(_worker, [(v, None) for v in chosen]))
    bad = 0
    for r in results:
        if r['status'] != 'ok':
            bad += 1
            print('%-11s %-4s %-28s %s %s' % (r['status'], r['property'], r['id'],
                                              r.get('reported', [])[:3], r.get('errors') or ''))
    print('%d analysed, %d not as expected' % (len(results), bad))


main(sys.argv[1:])
