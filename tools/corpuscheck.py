"""run the in-memory patch corpus (seeded changes / refactorings) selectively:
   tools/corpuscheck.py seeded [substring] [--as=Cnn,Cmm]  |  tools/corpuscheck.py twins [substring] [Cnn ...]"""
import concurrent.futures
import sys
sys.path.insert(0, __import__('os').path.dirname(__import__('os').path.dirname(__import__('os').path.abspath(__file__))))
from usimlint.corpus import corpus_variants
from usimlint.selftest import _worker


def main(argv):
    kind = argv[0]
    sub = argv[1] if len(argv) > 1 else ''
    props = set(a for a in argv[2:] if not a.startswith('--as='))
    other = [a[5:].split(',') for a in argv[2:] if a.startswith('--as=')]
    chosen = [v for v in corpus_variants() if
              (kind == 'seeded') == v['id'].startswith('seeded-') and sub in v['id']
              and (not props or v['property'] in props)]
    if other:
        # run a seeded change against the checks of other properties: which ones see it?
        chosen = [dict(v, property=prop) for v in chosen for prop in other[0]]
    with concurrent.futures.ProcessPoolExecutor(max_workers=16) as pool:
        results = list(pool.map(_worker, [(v, None) for v in chosen]))
    bad = 0
    for r in results:
        if other:
            print('%-11s %-4s %-28s %s' % ('reported' if r['status'] == 'ok' else 'silent',
                                           r['property'], r['id'], r.get('reported', [])[:3]))
            continue
        if r['status'] != 'ok':
            bad += 1
            print('%-11s %-4s %-28s %s %s' % (r['status'], r['property'], r['id'],
                                              r.get('reported', [])[:3], r.get('errors') or ''))
    print('%d analysed, %d not as expected' % (len(results), bad))


main(sys.argv[1:])
