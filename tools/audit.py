"""audit print-out: every suspension-related site with its resolved type"""
import ast, sys
sys.path.insert(0, '/verif')
from usimlint.model import Program
from usimlint.types import TypeEngine, Frame, _walk_own

p = Program.load()
te = TypeEngine(p)
n = unk = 0
for fn in sorted(p.functions.values(), key=lambda f: (f.module.relpath, f.node.lineno)):
    if isinstance(fn.node, ast.Lambda):
        continue
    owner = p.enclosing_self_class(fn)
    recvs = [None]
    if owner is not None:
        recvs = [owner.qn]
    for recv in recvs:
        frame = Frame(fn, recv)
        for node in _walk_own(fn.node):
            desc = None
            if isinstance(node, (ast.Await, ast.YieldFrom)):
                desc = ('await' if isinstance(node, ast.Await) else 'yield from', node.value)
            elif isinstance(node, (ast.AsyncWith, ast.With)):
                desc = (type(node).__name__, node.items[0].context_expr)
            elif isinstance(node, ast.AsyncFor):
                desc = ('async for', node.iter)
            if desc:
                ts = te.expr_type(desc[1], frame)
                n += 1
                flag = ''
                if any(t[0] == 'unknown' for t in ts):
                    unk += 1
                    flag = '  <<<<<< UNKNOWN'
                print('%s:%d %s  %s %s -> %s%s' % (fn.module.relpath, node.lineno, fn.qn.split('.',2)[-1], desc[0], ast.unparse(desc[1])[:50], sorted(ts, key=repr), flag))
print(n, 'sites', unk, 'unknown')
