"""Systematic mutation sweep: which one-spot edits that the test suite does NOT notice do the
static checks report?  (A development aid, not a registered check: phase 1 runs the project's
test suite on scratch copies of /repo under a work directory outside /repo and /verif.)

  tools/mutsweep.py gen  <workdir>            AST-computed one-spot mutants of usim/**/*.py, each
                                              run against the test suite in a scratch copy; the
                                              ones the suite lets pass are kept (survivors.json)
  tools/mutsweep.py scan <workdir> [Cnn ...]  every survivor analysed in memory by the checks of
                                              the properties whose anchors name its file (or the
                                              ones given): reported / silent  (results.json)

Operators: comparison boundary and negation, negated branch tests, and/or, +/- and */ swaps,
True/False, a call or await statement deleted, a raise deleted, pop(0)/popleft -> pop,
BaseException -> Exception in handlers, `is None` <-> `is not None`.
"""
import ast
import concurrent.futures
import json
import os
import shutil
import subprocess
import sys

VERIF = os.path.dirname(os.path.dirname(os.path.abspath(__file__)))
sys.path.insert(0, VERIF)
REPO = '/repo'
GENERATION = int(os.environ.get('MUTSWEEP_GENERATION', '0'))   # 0: all operators

CMP = {ast.Gt: '>=', ast.GtE: '>', ast.Lt: '<=', ast.LtE: '<', ast.Eq: '!=', ast.NotEq: '==',
       ast.Is: 'is not', ast.IsNot: 'is', ast.In: 'not in', ast.NotIn: 'in'}
CMP_TEXT = {ast.Gt: '>', ast.GtE: '>=', ast.Lt: '<', ast.LtE: '<=', ast.Eq: '==',
            ast.NotEq: '!=', ast.Is: 'is', ast.IsNot: 'is not', ast.In: 'in',
            ast.NotIn: 'not in'}
BIN = {ast.Add: ('+', '-'), ast.Sub: ('-', '+'), ast.Mult: ('*', '/'), ast.Div: ('/', '*')}


def _offsets(lines):
    total, result = 0, []
    for line in lines:
        result.append(total)
        total += len(line)
    return result


def mutants_of(rel, text):
    """[(op, lineno, new text)]"""
    tree = ast.parse(text)
    lines = text.splitlines(keepends=True)
    starts = _offsets(lines)

    def pos(lineno, col):
        # col offsets are utf8 bytes; the package is ascii apart from a few comments
        line = lines[lineno - 1]
        return starts[lineno - 1] + len(line.encode('utf8')[:col].decode('utf8'))

    def span(node):
        return pos(node.lineno, node.col_offset), pos(node.end_lineno, node.end_col_offset)

    found = []

    def replace(op, node_line, start, end, new):
        found.append((op, node_line, text[:start] + new + text[end:]))

    docstrings = set()
    for node in ast.walk(tree):
        if isinstance(node, (ast.Module, ast.ClassDef, ast.FunctionDef, ast.AsyncFunctionDef)):
            body = node.body
            if body and isinstance(body[0], ast.Expr) and isinstance(
                    body[0].value, ast.Constant) and isinstance(body[0].value.value, str):
                docstrings.add(id(body[0]))
    in_annotation = set()
    for node in ast.walk(tree):
        for field in ('annotation', 'returns'):
            sub = getattr(node, field, None)
            if isinstance(sub, ast.AST):
                in_annotation.update(id(n) for n in ast.walk(sub))
    for node in ast.walk(tree):
        if id(node) in in_annotation:
            continue
        if isinstance(node, ast.Compare) and len(node.ops) == 1:
            left_end = span(node.left)[1]
            right_start = span(node.comparators[0])[0]
            between = text[left_end:right_start]
            old = CMP_TEXT[type(node.ops[0])]
            if between.count(old) == 1 or (old in ('is', 'in', '<', '>') and
                                           between.strip(' ()\n\\') == old):
                at = left_end + between.index(old)
                replace('cmp:%s->%s' % (old, CMP[type(node.ops[0])]), node.lineno,
                        at, at + len(old), CMP[type(node.ops[0])])
        elif isinstance(node, (ast.If, ast.While)) and not (
                isinstance(node.test, ast.Constant)):
            start, end = span(node.test)
            replace('neg-test', node.lineno, start, end, 'not (%s)' % text[start:end])
        elif isinstance(node, ast.BoolOp) and len(node.values) == 2:
            a_end = span(node.values[0])[1]
            b_start = span(node.values[1])[0]
            between = text[a_end:b_start]
            old = 'and' if isinstance(node.op, ast.And) else 'or'
            new = 'or' if old == 'and' else 'and'
            if between.count(old) == 1:
                at = a_end + between.index(old)
                replace('bool:%s->%s' % (old, new), node.lineno, at, at + len(old), new)
        elif isinstance(node, ast.BinOp) and type(node.op) in BIN and not isinstance(
                node.left, ast.Constant) or isinstance(node, ast.BinOp) and \
                type(node.op) in BIN and isinstance(node.left, ast.Constant) and \
                not isinstance(node.left.value, str):
            old, new = BIN[type(node.op)]
            a_end = span(node.left)[1]
            b_start = span(node.right)[0]
            between = text[a_end:b_start]
            if between.count(old) == 1:
                at = a_end + between.index(old)
                replace('arith:%s->%s' % (old, new), node.lineno, at, at + 1, new)
        elif isinstance(node, ast.Constant) and isinstance(node.value, bool):
            start, end = span(node)
            replace('const:%s' % node.value, node.lineno, start, end, str(not node.value))
        elif isinstance(node, ast.Expr) and id(node) not in docstrings and isinstance(
                node.value, (ast.Call, ast.Await)):
            start, end = span(node)
            replace('del-stmt', node.lineno, start, end, 'pass')
        elif isinstance(node, ast.Raise):
            start, end = span(node)
            replace('del-raise', node.lineno, start, end, 'pass')
        elif isinstance(node, ast.Call) and isinstance(node.func, ast.Attribute):
            if node.func.attr == 'popleft' and not node.args:
                start, end = span(node)
                replace('popleft->pop', node.lineno, end - len('popleft()'), end, 'pop()')
            elif node.func.attr == 'pop' and len(node.args) == 1 and isinstance(
                    node.args[0], ast.Constant) and node.args[0].value == 0:
                start, end = span(node.args[0])
                replace('pop(0)->pop()', node.lineno, start, end, '')
        elif isinstance(node, ast.ExceptHandler) and isinstance(node.type, ast.Name) and \
                node.type.id == 'BaseException':
            start, end = span(node.type)
            replace('handler:BaseException->Exception', node.lineno, start, end, 'Exception')
    # second generation of operators (statements inside functions only)
    in_function = set()
    for node in ast.walk(tree):
        if isinstance(node, (ast.FunctionDef, ast.AsyncFunctionDef)):
            for sub in ast.walk(node):
                in_function.add(id(sub))
    for node in ast.walk(tree):
        if id(node) not in in_function or id(node) in in_annotation:
            continue
        if isinstance(node, (ast.Assign, ast.AugAssign)):
            start, end = span(node)
            replace('del-assign', node.lineno, start, end, 'pass')
        elif isinstance(node, ast.Call) and isinstance(node.func, ast.Attribute) and \
                node.func.attr == 'copy' and not node.args and not node.keywords:
            start, end = span(node)
            inner = span(node.func.value)
            replace('copy-removed', node.lineno, start, end, text[inner[0]:inner[1]])
        elif isinstance(node, ast.Call) and isinstance(node.func, ast.Name) and \
                node.func.id in ('list', 'tuple') and len(node.args) == 1 and \
                not node.keywords and not isinstance(node.args[0], ast.GeneratorExp):
            start, end = span(node)
            inner = span(node.args[0])
            replace('copy-removed', node.lineno, start, end, text[inner[0]:inner[1]])
        elif isinstance(node, ast.Subscript) and isinstance(node.slice, ast.Constant) and \
                node.slice.value == 0 and isinstance(node.ctx, ast.Load):
            start, end = span(node.slice)
            replace('index:0->-1', node.lineno, start, end, '-1')
        elif isinstance(node, ast.Subscript) and isinstance(node.slice, ast.UnaryOp) and \
                isinstance(node.slice.op, ast.USub) and isinstance(
                    node.slice.operand, ast.Constant) and node.slice.operand.value == 1:
            start, end = span(node.slice)
            replace('index:-1->0', node.lineno, start, end, '0')
        elif isinstance(node, ast.Return) and node.value is not None and not isinstance(
                node.value, ast.Constant):
            start, end = span(node.value)
            replace('return-none', node.lineno, start, end, 'None')
        elif isinstance(node, (ast.Break, ast.Continue)):
            start, end = span(node)
            replace('del-%s' % type(node).__name__.lower(), node.lineno, start, end, 'pass')
    # third generation: statements moved across a suspension, clean-up made conditional
    def suspends(stmt):
        return any(isinstance(n, (ast.Await, ast.Yield, ast.YieldFrom, ast.AsyncWith,
                                  ast.AsyncFor)) for n in ast.walk(stmt))

    def simple(stmt):
        return isinstance(stmt, (ast.Expr, ast.Assign, ast.AugAssign, ast.AnnAssign)) and \
            id(stmt) not in docstrings
    for node in ast.walk(tree):
        if id(node) not in in_function:
            continue
        for field in ('body', 'orelse', 'finalbody'):
            body = getattr(node, field, None)
            if not isinstance(body, list):
                continue
            for first, second in zip(body, body[1:]):
                if simple(first) and simple(second) and suspends(first) != suspends(second) \
                        and first.col_offset == second.col_offset:
                    a, b = span(first), span(second)
                    replace('swap-across-suspension', first.lineno, a[0], b[1],
                            text[b[0]:b[1]] + text[a[1]:b[0]] + text[a[0]:a[1]])
        if isinstance(node, ast.Try) and node.finalbody and not node.handlers:
            # try/finally -> the clean-up only on the regular way out
            start = pos(node.lineno, node.col_offset)
            first_body = node.body[0]
            last_final = node.finalbody[-1]
            indent = ' ' * node.col_offset
            body_text = text[pos(first_body.lineno, 0):span(node.body[-1])[1]]
            final_text = text[pos(node.finalbody[0].lineno, 0):span(last_final)[1]]

            def dedent(block):
                return '\n'.join(line[4:] if line.startswith(indent + '    ') else line
                                 for line in block.split('\n'))
            replace('finally->sequel', node.lineno, pos(node.lineno, 0), span(last_final)[1],
                    dedent(body_text) + '\n' + dedent(final_text))
    third = ('swap-across-suspension', 'finally->sequel')
    if GENERATION == 3:
        found = [f for f in found if f[0] in third]
    elif GENERATION in (1, 2):
        found = [f for f in found if f[0] not in third]
    if GENERATION == 2:
        found = [f for f in found if f[0].split(':')[0] in (
            'del-assign', 'copy-removed', 'index', 'return-none', 'del-break',
            'del-continue')]
    elif GENERATION == 1:
        found = [f for f in found if f[0].split(':')[0] not in (
            'del-assign', 'copy-removed', 'index', 'return-none', 'del-break',
            'del-continue')]
    result = []
    for op, lineno, new_text in found:
        if new_text == text:
            continue
        try:
            compile(new_text, rel, 'exec')
        except SyntaxError:
            continue
        result.append((op, lineno, new_text))
    return result


def _test(args):
    worker_dir, rel, new_text, ident = args
    wt = os.path.join(worker_dir, 'w%d' % os.getpid())
    if not os.path.isdir(wt):
        os.makedirs(wt)
        for name in ('usim', 'usim_pytest', 'pytest.ini', 'setup.cfg', 'pyproject.toml'):
            src = os.path.join(REPO, name)
            if os.path.isdir(src):
                shutil.copytree(src, os.path.join(wt, name))
            elif os.path.isfile(src):
                shutil.copy(src, wt)
    target = os.path.join(wt, rel)
    original = open(os.path.join(REPO, rel), encoding='utf8').read()
    with open(target, 'w', encoding='utf8') as stream:
        stream.write(new_text)
    try:
        res = subprocess.run(
            'cd %s && PYTHONPATH=%s timeout 90 /venv/bin/python -B -m pytest -x -q '
            '-p no:cacheprovider --timeout=60' % (wt, wt), shell=True, capture_output=True,
            text=True)
        code = res.returncode
    finally:
        with open(target, 'w', encoding='utf8') as stream:
            stream.write(original)
    return ident, code


def gen(work):
    os.makedirs(work, exist_ok=True)
    todo = []
    for base, _dirs, files in os.walk(os.path.join(REPO, 'usim')):
        for name in sorted(files):
            if not name.endswith('.py'):
                continue
            path = os.path.join(base, name)
            rel = os.path.relpath(path, REPO)
            text = open(path, encoding='utf8').read()
            for op, lineno, new_text in mutants_of(rel, text):
                todo.append(dict(id='%s:%d:%s' % (rel, lineno, op), file=rel, line=lineno,
                                 op=op, text=new_text,
                                 old=text.splitlines()[lineno - 1].strip()))
    # several mutants of one kind on one line: number them
    seen = {}
    for item in todo:
        seen[item['id']] = seen.get(item['id'], 0) + 1
        if seen[item['id']] > 1:
            item['id'] += '#%d' % seen[item['id']]
    print('%d mutants' % len(todo))
    by_id = {item['id']: item for item in todo}
    survivors = []
    with concurrent.futures.ProcessPoolExecutor(max_workers=14) as pool:
        jobs = [(work, item['file'], item['text'], item['id']) for item in todo]
        for n, (ident, code) in enumerate(pool.map(_test, jobs, chunksize=4)):
            if code == 0:
                survivors.append(by_id[ident])
            if n % 100 == 0:
                print(n, len(survivors), flush=True)
    for name in os.listdir(work):
        if name.startswith('w') and os.path.isdir(os.path.join(work, name)):
            shutil.rmtree(os.path.join(work, name))
    json.dump(survivors, open(os.path.join(work, 'survivors.json'), 'w'), indent=0)
    print('%d of %d survive the test suite' % (len(survivors), len(todo)))


def _scan(args):
    sys.setrecursionlimit(10000)
    item, prop = args
    import contextlib
    import importlib
    import io
    from usimlint.report import Check
    from usimlint.engine import Analysis
    from usimlint.model import AnalysisError
    check = Check(prop, 'selftest', 0, quiet=True)
    try:
        module = importlib.import_module('usimlint.props.%s' % prop.lower())
        analysis = Analysis(overlay={item['file']: item['text']})
        module.run(check, analysis)
    except AnalysisError as err:
        check.error(str(err))
    except Exception as err:
        check.error('internal %s: %s' % (type(err).__name__, err))
    with contextlib.redirect_stdout(io.StringIO()):
        code = check.finish(write=False)
    failing = ['%s %s' % (i.rule, i.construct) for i in check.instances
               if not i.ok and not i.known]
    return item['id'], prop, code, failing[:4], check.errors[:2]


def scan(work, props):
    survivors = json.load(open(os.path.join(work, 'survivors.json')))
    anchors = {}
    for line in open(os.path.join(VERIF, 'properties.jsonl')):
        prop = json.loads(line)
        for rel in prop['anchors']['files']:
            anchors.setdefault(rel, []).append(prop['id'])
    jobs = []
    for item in survivors:
        for prop in (props or anchors.get(item['file'], [])):
            jobs.append((item, prop))
    print('%d survivors, %d analyses' % (len(survivors), len(jobs)), flush=True)
    results = {}
    with concurrent.futures.ProcessPoolExecutor(max_workers=16) as pool:
        for n, (ident, prop, code, failing, errors) in enumerate(
                pool.map(_scan, jobs, chunksize=2)):
            results.setdefault(ident, {})[prop] = dict(exit=code, reported=failing,
                                                       errors=errors)
            if n % 100 == 0:
                print(n, flush=True)
    json.dump(results, open(os.path.join(work, 'results.json'), 'w'), indent=0)
    by_id = {item['id']: item for item in survivors}
    silent = 0
    for ident, per in sorted(results.items()):
        hit = sorted(p for p, r in per.items() if r['exit'] == 1)
        err = sorted(p for p, r in per.items() if r['exit'] == 2)
        if not hit:
            silent += 1
        print('%-8s %-62s | %s | by %s%s' % (
            'reported' if hit else ('refused' if err else 'SILENT'), ident,
            by_id[ident]['old'][:60], ','.join(hit) or '-',
            (' refused by ' + ','.join(err)) if err else ''))
    unanchored = [item['id'] for item in survivors if item['id'] not in results]
    print('%d survivors analysed, %d not reported by any check run; %d in files no property '
          'is anchored in' % (len(results), silent, len(unanchored)))


if __name__ == '__main__':
    if sys.argv[1] == 'gen':
        gen(sys.argv[2])
    else:
        scan(sys.argv[2], sys.argv[3:])
