"""
Behaviour-preserving refactorings (written by sub-agents that saw no check) must not be
reported.  For every /verif/twins/<id>/patch.diff: `git -C /repo apply`, run all twenty
quick checks, record exit codes (1 = false alarm, 2 = analysis refused), `git checkout`.
With `import <Rn>`: first verify a refactoring from /tmp/seed_out/<Rn>/<k> in its scratch
worktree (patch applies, test suite green) and copy it to /verif/twins/.
"""
import json
import os
import shutil
import subprocess
import sys

VERIF = os.path.dirname(os.path.dirname(os.path.abspath(__file__)))
TWINS = os.path.join(VERIF, 'twins')
PROPS = ['C%02d' % n for n in range(1, 21)]


def sh(cmd, timeout=1800):
    res = subprocess.run(cmd, shell=True, capture_output=True, text=True, timeout=timeout)
    return res.returncode, res.stdout + res.stderr


def do_import(area):
    wt = '/tmp/wt/%s' % area
    root = '/tmp/seed_out/%s' % area
    sh('git -C %s checkout -- .' % wt)
    for k in sorted(x for x in os.listdir(root) if x.isdigit()):
        src = os.path.join(root, k)
        patch = os.path.join(src, 'patch.diff')
        if not os.path.isfile(patch):
            continue
        rc, out = sh('git -C %s apply %s' % (wt, patch))
        if rc != 0:
            print(area, k, 'does not apply', out[:100])
            continue
        rc, out = sh('cd %s && PYTHONPATH=%s timeout 900 /venv/bin/python -m pytest -q '
                     '-p no:cacheprovider' % (wt, wt))
        tail = [l for l in out.strip().splitlines() if 'passed' in l or 'failed' in l][-1:]
        sh('git -C %s checkout -- .' % wt)
        ok = rc == 0
        print('%s-%s tests=%s -> %s' % (area, k, tail, 'KEEP' if ok else 'REJECT'))
        if not ok:
            continue
        dest = os.path.join(TWINS, '%s-%s' % (area, k))
        os.makedirs(dest, exist_ok=True)
        shutil.copy(patch, os.path.join(dest, 'patch.diff'))
        meta = {}
        if os.path.isfile(os.path.join(src, 'meta.json')):
            meta = json.load(open(os.path.join(src, 'meta.json')))
        meta['verified'] = {'test_suite': tail[0] if tail else '?',
                            'where': 'scratch worktree of /repo HEAD'}
        json.dump(meta, open(os.path.join(dest, 'meta.json'), 'w'), indent=1)


def main(argv):
    if argv and argv[0] == 'import':
        for area in argv[1:]:
            do_import(area)
        return 0
    status = sh('git -C /repo status --porcelain')[1].strip()
    if status:
        print('refusing: /repo has local changes')
        return 2
    only = set(argv)
    results = []
    for name in sorted(os.listdir(TWINS)):
        patch = os.path.join(TWINS, name, 'patch.diff')
        if not os.path.isfile(patch) or (only and name not in only):
            continue
        rc, out = sh('git -C /repo apply %s' % patch)
        if rc != 0:
            results.append({'id': name, 'status': 'patch does not apply'})
            sh('git -C /repo checkout -- .')
            continue
        entry = {'id': name, 'alarms': {}, 'refused': {}}
        try:
            for prop in PROPS:
                code, text = sh('cd %s && ./check %s quick' % (VERIF, prop))
                if code == 1:
                    entry['alarms'][prop] = [l.split('violation: ', 1)[1] for l in
                                             text.splitlines()
                                             if l.startswith('--- violation: ')][:4]
                elif code != 0:
                    entry['refused'][prop] = [l for l in text.splitlines()
                                              if l.startswith('ANALYSIS-ERROR')][:2]
        finally:
            sh('git -C /repo checkout -- .')
        results.append(entry)
        print('%-10s alarms=%s refused=%s' % (name, entry['alarms'] or '-',
                                              sorted(entry['refused']) or '-'))
    out = os.path.join(TWINS, 'RESULTS.json')
    if only and os.path.exists(out):
        old = {r['id']: r for r in json.load(open(out))}
        for r in results:
            old[r['id']] = r
        results = [old[k] for k in sorted(old)]
    json.dump(results, open(out, 'w'), indent=1)
    alarms = sum(1 for r in results if r.get('alarms'))
    refused = sum(1 for r in results if r.get('refused'))
    print('%d refactorings: %d with a false alarm, %d with a refused analysis' % (
        len(results), alarms, refused))
    # restore evidence of the unchanged tree
    return 0


if __name__ == '__main__':
    sys.exit(main(sys.argv[1:]))
