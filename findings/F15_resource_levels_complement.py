"""F15: for resource levels (a partial order) the complement of a comparison is not the
mirrored operator: `~(levels > x)` is evaluated as `levels <= x`, so both `c` and `~c` can be
false at the same time (and a waiter of `~c` sleeps although `c` is false)."""
from usim import run, Resources, time


async def main():
    res = Resources(a=2, b=2)
    cond = res > {'a': 1, 'b': 3}      # 2 > 1 but not 2 > 3: False
    inverse = ~cond
    assert not cond
    assert bool(inverse), "c is False, so ~c must be True; got ~c == %r (%s)" % (bool(inverse), inverse)

run(main())
print('ok')
