"""F1 (C03, C04, C06): `cr_frame.f_lasti == -1` is never true on CPython 3.12, so a task is
never recognised as not-yet-started.
(a) cancelling a task before its first turn still runs its first code segment;
(b) a scope that fails before its child's first turn closes the child's coroutine and the
    pending activation then ends run() with RuntimeError('cannot reuse already awaited coroutine')."""
from usim import run, Scope, time, instant, TaskState

async def cancel_before_start():
    ran = []
    async def child():
        ran.append('first segment')
        await (time + 1)
    async with Scope() as scope:
        task = scope.do(child())
        assert task.status == TaskState.CREATED, 'status of an unstarted task is %s' % task.status
        task.cancel()
        await instant
    assert not ran, 'code of a task cancelled before its start ran: %s' % ran

class Boom(Exception):
    pass

async def fail_before_child_start():
    async def child():
        await (time + 1)
    try:
        async with Scope() as scope:
            scope.do(child())
            raise Boom()
    except Boom:
        pass
    await (time + 2)

import sys
which = sys.argv[1] if len(sys.argv) > 1 else 'a'
run(cancel_before_start() if which == 'a' else fail_before_child_start())
print('ok', which)
