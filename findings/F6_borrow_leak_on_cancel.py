"""F6 (C12): a borrower cancelled/interrupted while acquiring (or while giving back) leaks
the borrowed amount for good.
Expected (property): the level equals the supply at quiescence."""
from usim import run, Resources, Scope, time, until, instant

async def acquire_leak():
    resources = Resources(x=4)
    async def borrower():
        async with resources.borrow(x=3):
            await (time + 10)
    async with Scope() as scope:
        task = scope.do(borrower())
        await instant          # borrower ran its first turn: parent debited, postponed
        task.cancel()
    await (time + 20)
    print('after cancel while acquiring:', resources.levels.x)
    return resources.levels.x

async def release_leak():
    resources = Resources(x=4)
    async def borrower():
        async with resources.borrow(x=3):
            await (time + 1)
    async with Scope() as scope:
        task = scope.do(borrower())
        await instant
        await instant
        await instant          # borrower holds 3 and sleeps in its block
        task.cancel()          # ends the block: __aexit__ starts giving back ...
        task.cancel()          # ... and is hit again at its first suspension point
    await (time + 20)
    print('after cancel while releasing:', resources.levels.x)
    return resources.levels.x

async def main():
    a = await acquire_leak()
    b = await release_leak()
    assert a == 4 and b == 4, 'resources leaked: %s %s' % (a, b)

run(main())
