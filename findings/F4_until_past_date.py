"""F4 (C01, C03, C07): subscribing to a time condition whose date is not in the future
schedules into the past: run() ends with the kernel's AssertionError
('schedule date must not be in the past'); under -O the clock would go backwards.
Expected: until(time >= now/past) ends the block in this time step; until(time == past)
never fires; (time == past) & c never holds."""
import sys
from usim import run, time, until, Flag, eternity, instant

async def after_now():
    await (time + 5)
    async with until(time >= time.now):
        await (time + 10)
    assert time.now == 5, time.now

async def after_past():
    await (time + 5)
    async with until(time >= 2):
        await (time + 10)
    assert time.now == 5, time.now

async def moment_past():
    await (time + 5)
    async with until(time == 2):      # can never fire any more
        await (time + 10)
    assert time.now == 15, time.now

async def moment_now():
    await (time + 5)
    async with until(time == 5):
        await (time + 10)
    assert time.now == 5, time.now

async def connective_past_moment():
    flag = Flag()
    await (time + 5)
    async with until(time + 3):
        await ((time == 2) & flag)    # never true, must simply wait
    assert time.now == 8, time.now

cases = dict(after_now=after_now, after_past=after_past, moment_past=moment_past,
             moment_now=moment_now, connective_past_moment=connective_past_moment)
which = sys.argv[1] if len(sys.argv) > 1 else 'all'
failed = []
for name, case in cases.items():
    if which in ('all', name):
        try:
            run(case())
            print('ok  ', name)
        except BaseException as err:
            print('FAIL', name, type(err).__name__, err)
            failed.append(name)
sys.exit(1 if failed else 0)
