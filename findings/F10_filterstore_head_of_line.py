"""F10 (C19): FilterStore requests are served with the generic takewhile trigger: a request
whose filter matches nothing stops the scan and blocks later requests that could be served."""
from usim.py import Environment
from usim.py.resources.store import FilterStore

env = Environment()
store = FilterStore(env)
got = []

def want(kind):
    item = yield store.get(lambda item: item == kind)
    got.append(item)

def main():
    env.process(want('pear'))       # never satisfiable
    yield env.timeout(1)
    env.process(want('apple'))
    yield env.timeout(1)
    yield store.put('apple')
    yield env.timeout(5)

env.process(main())
env.run(until=20)
print(got)
assert got == ['apple'], 'the apple request is blocked by the pear request ahead of it'
