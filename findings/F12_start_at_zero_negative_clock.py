"""F12 (C01): the task wrapper tests its start date by truthiness (`if delay or at`):
with a negative clock, `scope.do(x, at=0)` starts x immediately instead of at time 0."""
from usim import run, Scope, time

async def main():
    started = []
    async def child():
        started.append(time.now)
    async with Scope() as scope:
        scope.do(child(), at=0)
    assert started == [0], 'child scheduled at=0 started at %s' % started

run(main(), start=-5)
print('ok')
