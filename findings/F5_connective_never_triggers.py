"""F5 (C07, C08): a connective (a & b, a | b) parks subscribers in its own waiter list which
nothing ever triggers: until(a & b) never fires, and a connective nested in a connective
of the other kind is never re-evaluated.
Expected: the until-block ends when a & b becomes true; await (a | (b & c)) returns when b & c does."""
import sys
from usim import run, time, until, Flag, Scope

async def until_and():
    a, b = Flag(), Flag()
    async def setter():
        await (time + 1)
        await a.set()
        await (time + 1)
        await b.set()
    async with Scope() as scope:
        scope.do(setter())
        async with until(a & b):
            await (time + 10)
    assert time.now == 2, 'until(a & b) ended at %s' % time.now

async def nested():
    a, b, c = Flag(), Flag(), Flag()
    async def setter():
        await (time + 1)
        await b.set()
        await (time + 1)
        await c.set()
    async with Scope() as scope:
        scope.do(setter())
        async with until(time + 10):
            await (a | (b & c))
    assert time.now == 2, 'await (a | (b & c)) returned at %s' % time.now

cases = dict(until_and=until_and, nested=nested)
failed = []
for name, case in cases.items():
    try:
        run(case())
        print('ok  ', name)
    except BaseException as err:
        print('FAIL', name, type(err).__name__, err)
        failed.append(name)
sys.exit(1 if failed else 0)
