"""F11 (C20): iterating a Channel delivers consecutive buffered messages back to back,
without letting other runnable activities run in between.
Expected (property): another runnable activity gets a turn between two iteration steps.
Run: timeout 20 /venv/bin/python findings/F11_channel_iter_backtoback.py"""
from usim import run, Channel, Scope, instant

async def main():
    channel = Channel()
    turns = []
    seen = []
    async def spinner(n):
        for _ in range(n):
            await instant
            turns.append(1)
    async def consumer():
        async for message in channel:
            seen.append((message, len(turns)))
    async with Scope() as scope:
        scope.do(consumer())
        await instant                 # consumer is subscribed and waiting
        scope.do(channel.put(1))      # two producers put in consecutive turns, both
        scope.do(channel.put(2))      # before the consumer's next turn
        scope.do(spinner(20))         # runnable all the time
        for _ in range(10):
            await instant
        await channel.close()
    print('messages with spinner turn count at receipt:', seen)
    assert seen[1][1] > seen[0][1], 'no other activity ran between two iteration steps'

run(main())
