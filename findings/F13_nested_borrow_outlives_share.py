"""F13 (C12): a nested borrow that outlives the share it borrowed from drives the share
negative and the parent is credited in full while resources are still held.
Expected (property): levels never drop below zero / nested borrowing never exceeds the share."""
from usim import run, Resources, Scope, time

async def main():
    resources = Resources(x=4)
    observed = []
    async def inner(share, scope_done):
        async with share.borrow(x=2):
            await (time + 10)
            observed.append(('parent level while 2 still held', resources.levels.x))
    async with Scope() as scope:
        async with resources.borrow(x=3) as share:
            scope.do(inner(share, None))
            await (time + 1)
        # outer share has been given back at t=1 while inner still holds 2 of it
        observed.append(('share level after outer release', share.levels.x))
        observed.append(('parent level after outer release', resources.levels.x))
    print(observed)
    assert share.levels.x >= 0, 'share level negative'

run(main())
