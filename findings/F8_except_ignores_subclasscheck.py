"""F8 (C17): an `except` clause matches exception classes through the real MRO, never
through a metaclass __subclasscheck__. Specialisations of Concurrent are siblings, so
`except Concurrent[LookupError]` does not catch Concurrent(KeyError()) although
isinstance/issubclass say it matches; likewise `except Concurrent[KeyError, ...]`."""
from usim import Concurrent

failure = Concurrent(KeyError('k'))
print('isinstance:', isinstance(failure, Concurrent[LookupError]))
caught = None
try:
    try:
        raise failure
    except Concurrent[LookupError]:
        caught = 'Concurrent[LookupError]'
except Concurrent:
    caught = caught or 'only bare Concurrent'
print('except clause chose:', caught)

failure2 = Concurrent(KeyError('k'), IndexError('i'))
print('isinstance ellipsis:', isinstance(failure2, Concurrent[KeyError, ...]))
caught2 = None
try:
    try:
        raise failure2
    except Concurrent[KeyError, ...]:
        caught2 = 'Concurrent[KeyError, ...]'
except Concurrent:
    caught2 = caught2 or 'only bare Concurrent'
print('except clause chose:', caught2)
assert caught == 'Concurrent[LookupError]' and caught2 == 'Concurrent[KeyError, ...]', \
    'except disagrees with isinstance'
