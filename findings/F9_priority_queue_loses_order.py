"""F9 (C19): BaseResource._trigger_put/_trigger_get re-bind the request queue to a slice of
itself; slicing a SortedKeyList yields a plain list, so after the first trigger a
PriorityResource queues requests FIFO instead of by (priority, time)."""
from usim.py import Environment
from usim.py.resources.resource import PriorityResource

env = Environment()
resource = PriorityResource(env, capacity=1)
order = []

def user(name, priority, hold):
    with resource.request(priority=priority) as request:
        yield request
        order.append(name)
        yield env.timeout(hold)

def main():
    env.process(user('first', 0, 10))
    yield env.timeout(1)
    for name, priority in (('low', 5), ('mid', 3), ('high', 1)):
        env.process(user(name, priority, 1))
        yield env.timeout(1)

env.process(main())
env.run()
print(order, type(resource.put_queue).__name__)
assert order == ['first', 'high', 'mid', 'low'], order
