"""F2 (C13): a cancelled/interrupted Pipe.transfer keeps occupying bandwidth forever.
Expected (property): after the first transfer is interrupted at t=1, a transfer of 10 at
limit 2 through a pipe of 2 takes 5 time units."""
from usim import run, Pipe, until, time

async def main():
    pipe = Pipe(throughput=2)
    async with until(time + 1):
        await pipe.transfer(total=100, throughput=2)   # interrupted after 1 time unit
    start = time.now
    await pipe.transfer(total=10, throughput=2)
    print('second transfer took', time.now - start)
    assert time.now - start == 5, 'the interrupted transfer still occupies the pipe'

run(main())
