"""
F14 (C17): matching a bare ``Concurrent`` against a specialisation raised TypeError.

``Concurrent[KeyError]`` matches a failure iff every listed type is matched by some child;
a ``Concurrent()`` without children (the bare class) has no child, so the answer is False.
Before the fix (usim 5742c45) ``MetaConcurrent._subclasscheck_specialisation`` iterated
``subclass.specialisations``, which is ``None`` for the bare class.

Run with the tree under test first on the path; exits 0 when the defect is absent.
"""
from usim import Concurrent

try:
    answers = (
        isinstance(Concurrent(), Concurrent[KeyError]),
        isinstance(Concurrent(), Concurrent[KeyError, ...]),
        issubclass(Concurrent, Concurrent[KeyError]),
    )
except TypeError as err:
    raise SystemExit('DEFECT: %r' % err)
assert answers == (False, False, False), answers
assert isinstance(Concurrent(), Concurrent)
assert isinstance(Concurrent(KeyError()), Concurrent[KeyError])
print('OK')
