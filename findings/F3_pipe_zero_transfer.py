"""F3 (C20): Pipe.transfer(total=0) completes without letting other runnable activities run.
Expected (property): the spinner gets at least one turn while main awaits the transfer.
Run: /venv/bin/python findings/F3_pipe_zero_transfer.py  -> prints turns seen by spinner."""
from usim import run, Pipe, Scope, time, instant

async def main():
    pipe = Pipe(throughput=2)
    turns = []
    async def spinner():
        while True:
            await instant
            turns.append(time.now)
    async with Scope() as scope:
        scope.do(spinner(), volatile=True)
        await instant          # let the spinner start: it is now runnable every turn
        before = len(turns)
        await pipe.transfer(total=0)
        after = len(turns)
        print('spinner turns during transfer(0):', after - before)
        assert after - before >= 1, 'zero-volume transfer did not yield'

run(main())
