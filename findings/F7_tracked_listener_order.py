"""F7 (C02): Tracked.set triggers its comparisons by iterating a WeakSet, i.e. in an order
that depends on memory addresses/hash seeds: waiters on different comparisons of one
tracked value wake in an order that differs from run to run (and from subscription order).
Run in several processes with allocation noise and compare the printed order."""
import sys
from usim import run, Tracked, Scope, time

async def main(noise):
    junk = [object() for _ in range(noise)]   # perturb the heap
    value = Tracked(0)
    order = []
    async def waiter(k, condition):
        await condition
        order.append(k)
    async with Scope() as scope:
        conditions = []
        for k in range(8):
            junk.append([object() for _ in range(noise % 7)])
            conditions.append(value >= 1)
        for k, condition in enumerate(conditions):
            scope.do(waiter(k, condition))
        await (time + 1)
        await value.set(1)
    print(order)
    assert order == sorted(order), order

run(main(int(sys.argv[1]) if len(sys.argv) > 1 else 0))
